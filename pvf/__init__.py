"""pvf - runtime-monitoring harness for aurzenligl/prophy (see /verif/DESIGN.md)."""
import os

REPO = os.environ.get("PVF_REPO", "/repo")
VERIF = os.path.dirname(os.path.dirname(os.path.abspath(__file__)))
PYTHON = os.environ.get("PVF_PYTHON", "/venv/bin/python")
