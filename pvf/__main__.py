import sys
from .harness import main

sys.exit(main())
