"""Plain reference model of the Python message API (DESIGN 3/C10).

State = reference value (dict / list / (arm, value) / None / scalars / bytes), mutated in place.
An operation is a dict {'path': [...steps], 'op': name, 'args': [...]} where steps are
('m', member) | ('i', index) | ('arm', name).  `expect(op)` decides, on the model alone, whether the
operation is accepted or which exception class the documented semantics prescribe; `apply(op)` performs
it atomically on the model.  `perform(msg, op)` executes the same operation on a live message through
the public API only.
"""
import math
import struct as _struct

from .schema import INTS, FLOATS, PLAIN, OPTIONAL, FIXED, DYNAMIC, LIMITED, GREEDY, EXT

OK, PROPHY, INDEX, VALUE = 'ok', 'ProphyError', 'IndexError', 'ValueError'


class Gen(object):
    """Wrapper marking an argument that must be passed as a generator/iterator."""

    def __init__(self, items):
        self.items = list(items)


def is_comp(sch, t):
    if t == 'byte':
        return False
    r = sch.resolve(t)
    return not isinstance(r, str) and r.kind in ('struct', 'union')


def default_of(sch, t):
    r = sch.resolve(t)
    if isinstance(r, str):
        return 0.0 if r in FLOATS else 0
    if r.kind == 'enum':
        return r.members[0][1]
    if r.kind == 'union':
        return (r.arms[0][2], default_of(sch, r.arms[0][1]))
    out = {}
    sizers = set(m.sizer for m in r.members if m.kind == EXT)
    for m in r.members:
        if m.name in sizers:
            continue
        if m.kind == PLAIN:
            out[m.name] = default_of(sch, m.type)
        elif m.kind == OPTIONAL:
            out[m.name] = None
        elif m.type == 'byte':
            out[m.name] = b'\x00' * m.size if m.kind == FIXED else b''
        elif m.kind == FIXED:
            out[m.name] = [default_of(sch, m.type) for _ in range(m.size)]
        else:
            out[m.name] = []
    return out


def scalar_check(sch, t, v):
    """-> (accepted, stored value) for assigning python value v to a scalar/enum of type t."""
    r = sch.resolve(t)
    if isinstance(r, str):
        if r in INTS:
            w, signed = INTS[r]
            lo, hi = (-(1 << (8 * w - 1)), (1 << (8 * w - 1)) - 1) if signed else (0, (1 << (8 * w)) - 1)
            if isinstance(v, int) and lo <= v <= hi:
                return True, int(v)
            return False, None
        if isinstance(v, (int, float)) and not isinstance(v, bool) or isinstance(v, bool):
            if r == 'r32':
                try:
                    _struct.pack('<f', v)
                except (OverflowError, _struct.error):
                    return False, None
            else:
                try:
                    float(v)
                except OverflowError:
                    return False, None
            return True, float(v)
        return False, None
    # enum
    vals = [x[1] for x in r.members]
    names = [x[0] for x in r.members]
    if isinstance(v, str):
        if v in names:
            return True, vals[names.index(v)]
        return False, None
    if isinstance(v, int):
        if v in vals:
            return True, int(v)
        return False, None
    return False, None


def bytes_check(m, v):
    if not isinstance(v, bytes):
        return False, None
    if m.kind in (FIXED, LIMITED) and len(v) > m.size:
        return False, None
    if m.kind == FIXED:
        return True, v.ljust(m.size, b'\x00')
    return True, v


class Model(object):
    def __init__(self, sch, tname):
        self.sch = sch
        self.tname = tname
        self.state = default_of(sch, tname)
        self.also = set()
        self.reason = None

    # -- navigation -------------------------------------------------------
    def resolve_path(self, path):
        """-> (type name, container value) of the composite the path leads to."""
        t, v = self.tname, self.state
        for step in path:
            r = self.sch.resolve(t)
            if step[0] == 'm':
                m = [x for x in r.members if x.name == step[1]][0]
                t, v = m.type, v[m.name]
            elif step[0] == 'i':
                v = v[step[1]]
            elif step[0] == 'arm':
                arm = [a for a in r.arms if a[2] == step[1]][0]
                t, v = arm[1], v[1]
        return t, v

    def _parent_set(self, path, newv):
        """Replace the value a path leads to (needed for immutable union tuples)."""
        if not path:
            self.state = newv
            return
        t, parent = self.tname, None
        chain = []
        v = self.state
        for step in path:
            chain.append((t, v, step))
            r = self.sch.resolve(t)
            if step[0] == 'm':
                m = [x for x in r.members if x.name == step[1]][0]
                t, v = m.type, v[m.name]
            elif step[0] == 'i':
                v = v[step[1]]
            else:
                arm = [a for a in r.arms if a[2] == step[1]][0]
                t, v = arm[1], v[1]
        # rebuild upwards
        cur = newv
        for (pt, pv, step) in reversed(chain):
            if step[0] == 'm':
                pv[step[1]] = cur
                return
            if step[0] == 'i':
                pv[step[1]] = cur
                return
            cur = (pv[0], cur)   # union tuple: rebuild and continue upwards
        self.state = cur

    def member(self, t, name):
        r = self.sch.resolve(t)
        return [x for x in r.members if x.name == name][0]

    def limit_of(self, t, m):
        """Maximum length of a bound array (None = unbounded)."""
        if m.kind == LIMITED:
            return m.size
        if m.kind == EXT:
            r = self.sch.resolve(t)
            sm = [x for x in r.members if x.name == m.sizer][0]
            w, signed = INTS[self.sch.resolve(sm.type)]
            return (1 << (8 * w - (1 if signed else 0))) - 1
        return None

    # -- semantics ----------------------------------------------------------
    def expect_and_apply(self, op):
        """Decide the outcome on the model and, if accepted, apply it. Returns OK/PROPHY/INDEX/VALUE.
        self.also collects further rejection classes that are equally acceptable (e.g. both the index and
        the value are bad: either complaint is fine)."""
        self.also = set()
        self.reason = None
        t, holder = self.resolve_path(op['path'])
        r = self.sch.resolve(t)
        kind = op['op']
        a = op['args']
        if r.kind == 'union':
            return self._union_op(op, t, r, holder)
        m = self.member(t, op['member'])
        comp = is_comp(self.sch, m.type)
        if kind == 'set':
            v = a[0]
            if m.type == 'byte':
                ok, sv = bytes_check(m, v)
                if not ok:
                    return PROPHY
                holder[m.name] = sv
                return OK
            if m.kind not in (PLAIN, OPTIONAL):
                return PROPHY                      # assignment to array field
            if comp:
                if m.kind == OPTIONAL and v is True:
                    holder[m.name] = default_of(self.sch, m.type)
                    return OK
                if m.kind == OPTIONAL and v is None:
                    holder[m.name] = None
                    return OK
                return PROPHY                      # assignment to composite field
            if m.kind == OPTIONAL and v is None:
                holder[m.name] = None
                return OK
            ok, sv = scalar_check(self.sch, m.type, v)
            if not ok:
                return PROPHY
            holder[m.name] = sv
            return OK
        arr = holder[m.name]
        lim = self.limit_of(t, m)
        if comp:
            res = self._composite_array_op(kind, a, m, arr, lim)
        else:
            res = self._scalar_array_op(kind, a, m, arr, lim)
        if res == PROPHY and m.kind == EXT:
            # would it have been accepted without the implicit limit of the sizer's integer type?
            probe = Model(self.sch, self.tname)
            import copy
            probe.state = copy.deepcopy(self.state)
            pt, pholder = probe.resolve_path(op['path'])
            parr = pholder[m.name]
            r2 = probe._composite_array_op(kind, a, m, parr, None) if comp else probe._scalar_array_op(kind, a, m, parr, None)
            if r2 == OK:
                self.reason = 'sizer-range'
        return res

    def _elems(self, m, values):
        out = []
        for v in values:
            ok, sv = scalar_check(self.sch, m.type, v)
            if not ok:
                return None
            out.append(sv)
        return out

    def _scalar_array_op(self, kind, a, m, arr, lim):
        fixed = m.kind == FIXED
        if kind == 'setitem':
            i, v = a
            ok, sv = scalar_check(self.sch, m.type, v)
            if not ok:
                if not -len(arr) <= i < len(arr):
                    self.also.add(INDEX)
                return PROPHY
            if not -len(arr) <= i < len(arr):
                return INDEX
            arr[i] = sv
            return OK
        if kind == 'setslice':
            sl, values = a
            values = values.items if isinstance(values, Gen) else list(values)
            ev = self._elems(m, values)
            if ev is None:
                return PROPHY
            trial = list(arr)
            try:
                trial[slice(*sl)] = ev
            except ValueError:
                return VALUE        # extended slice with a different number of elements
            if fixed and len(trial) != len(arr):
                return PROPHY
            if lim is not None and len(trial) > lim:
                return PROPHY
            arr[:] = trial
            return OK
        if fixed:
            return PROPHY
        if kind == 'append':
            ok, sv = scalar_check(self.sch, m.type, a[0])
            if not ok or (lim is not None and len(arr) + 1 > lim):
                return PROPHY
            arr.append(sv)
            return OK
        if kind == 'insert':
            ok, sv = scalar_check(self.sch, m.type, a[1])
            if not ok or (lim is not None and len(arr) + 1 > lim):
                return PROPHY
            arr.insert(a[0], sv)
            return OK
        if kind == 'extend':
            values = a[0].items if isinstance(a[0], Gen) else list(a[0])
            ev = self._elems(m, values)
            if ev is None or (lim is not None and len(arr) + len(ev) > lim):
                return PROPHY
            arr.extend(ev)
            return OK
        if kind == 'delitem':
            if not -len(arr) <= a[0] < len(arr):
                return INDEX
            del arr[a[0]]
            return OK
        if kind == 'delslice':
            del arr[slice(*a[0])]
            return OK
        if kind == 'remove':
            if a[0] not in arr:
                return VALUE
            arr.remove(a[0])
            return OK
        raise AssertionError(kind)

    def _composite_array_op(self, kind, a, m, arr, lim):
        if m.kind == FIXED:
            return PROPHY
        if kind == 'add':
            kwargs = a[0]
            if lim is not None and len(arr) + 1 > lim:
                return PROPHY
            elem = Model(self.sch, m.type)
            for name, v in kwargs.items():
                em = elem.member(m.type, name)
                is_array = em.kind not in (PLAIN, OPTIONAL) and em.type != 'byte'
                res = elem.expect_and_apply({'path': [], 'op': 'setslice' if is_array else 'set', 'member': name,
                                             'args': [(None, None, None), v] if is_array else [v]})
                if res != OK:
                    return PROPHY
            arr.append(elem.state)
            return OK
        if kind == 'extend_copy':
            # args: list of element values to be passed as messages of the same class
            if lim is not None and len(arr) + len(a[0]) > lim:
                return PROPHY
            import copy
            arr.extend(copy.deepcopy(x) for x in a[0])
            return OK
        if kind == 'delitem':
            if not -len(arr) <= a[0] < len(arr):
                return INDEX
            del arr[a[0]]
            return OK
        if kind == 'delslice':
            del arr[slice(*a[0])]
            return OK
        raise AssertionError(kind)

    def _union_op(self, op, t, r, holder):
        kind, a = op['op'], op['args']
        cur_arm = holder[0]
        if kind == 'disc':
            d = a[0]
            arms = [x for x in r.arms if d == x[2] or (isinstance(d, int) and not isinstance(d, bool) and d == x[0])
                    or (isinstance(d, bool) and d == x[0])]
            if isinstance(d, (list, dict, set)) or not arms:
                return PROPHY
            arm = arms[0]
            if arm[2] != cur_arm:
                self._parent_set(op['path'], (arm[2], default_of(self.sch, arm[1])))
            return OK
        arm = [x for x in r.arms if x[2] == op['member']][0]
        if kind == 'get':
            return OK if arm[2] == cur_arm else PROPHY
        if kind == 'set':
            if arm[2] != cur_arm:
                return PROPHY
            if is_comp(self.sch, arm[1]):
                return PROPHY
            ok, sv = scalar_check(self.sch, arm[1], a[0])
            if not ok:
                return PROPHY
            self._parent_set(op['path'], (cur_arm, sv))
            return OK
        raise AssertionError(kind)

    def encodable(self):
        """False only when arrays sharing a sizer have unequal lengths somewhere (documented ProphyError)."""
        return self._enc_ok(self.tname, self.state)

    def _enc_ok(self, t, v):
        r = self.sch.resolve(t)
        if isinstance(r, str) or r.kind == 'enum':
            return True
        if r.kind == 'union':
            arm = [x for x in r.arms if x[2] == v[0]][0]
            return self._enc_ok(arm[1], v[1])
        groups = {}
        for m in r.members:
            if m.kind == EXT:
                groups.setdefault(m.sizer, set()).add(len(v[m.name]))
        if any(len(g) > 1 for g in groups.values()):
            return False
        for m in r.members:
            if m.name not in v or m.type == 'byte' or not is_comp(self.sch, m.type):
                continue
            x = v[m.name]
            if m.kind in (PLAIN, OPTIONAL):
                if x is not None and not self._enc_ok(m.type, x):
                    return False
            else:
                if not all(self._enc_ok(m.type, e) for e in x):
                    return False
        return True


# ---------------------------------------------------------------------------
# executing an operation on a live message
# ---------------------------------------------------------------------------

def navigate(msg, path):
    cur = msg
    for step in path:
        if step[0] == 'm':
            cur = getattr(cur, step[1])
        elif step[0] == 'i':
            cur = cur[step[1]]
        else:
            cur = getattr(cur, step[1])
    return cur


def perform(msg, op, cls_lookup=None, handles=None):
    """Run op on the live message. Returns None or the exception raised.
    handles: array objects of the ROOT message handed out earlier (they cannot be replaced: array fields are not
    assignable); an op marked 'kept' goes through the object obtained the first time instead of reading the field again."""
    try:
        tgt = navigate(msg, op['path'])
        kind, a = op['op'], op['args']
        if kind == 'disc':
            tgt.discriminator = a[0]
        elif kind == 'get':
            getattr(tgt, op['member'])
        elif kind == 'set':
            setattr(tgt, op['member'], a[0])
        else:
            if handles is not None and not op['path']:
                if op.get('kept') and op['member'] in handles:
                    arr = handles[op['member']]
                else:
                    arr = getattr(tgt, op['member'])
                    handles.setdefault(op['member'], arr)
            else:
                arr = getattr(tgt, op['member'])
            if kind == 'setitem':
                arr[a[0]] = a[1]
            elif kind == 'setslice':
                vals = a[1]
                arr[slice(*a[0])] = iter(vals.items) if isinstance(vals, Gen) else vals
            elif kind == 'append':
                arr.append(a[0])
            elif kind == 'insert':
                arr.insert(a[0], a[1])
            elif kind == 'extend':
                arr.extend((x for x in a[0].items) if isinstance(a[0], Gen) else a[0])
            elif kind == 'delitem':
                del arr[a[0]]
            elif kind == 'delslice':
                del arr[slice(*a[0])]
            elif kind == 'remove':
                arr.remove(a[0])
            elif kind == 'add':
                arr.add(**a[0])
            elif kind == 'extend_copy':
                arr.extend(cls_lookup(op, a[0]))
            else:
                raise AssertionError(kind)
    except Exception as e:  # noqa
        return e
    return None
