"""Hostile inputs for prophyc (C13): corruptions of valid schemas, cyclic/malformed isar, bad patches, bad options."""
import re

TOKEN_RE = re.compile(r'0x[0-9a-fA-F]+|\d+|[A-Za-z_][A-Za-z0-9_]*|<<|>>|\.\.\.|"[^"\n]*"|\S')
ALPHABET = ['struct', 'union', 'enum', 'const', 'typedef', 'bytes', 'u32', 'u8', 'i64', 'float', 'double',
            '{', '}', '[', ']', '<', '>', ';', ':', '=', ',', '...', '<<', '>>', '@', '+', '-', '*', '/', '(', ')',
            '#', '0', '08', '0x', '09', '1', '999999999999999999999999', '0xFFFFFFFFFFFFFFFFFFFF', '"x.prophy"',
            '/*', '*/', '//', 'include', 'X', 'num_of_x', '$', '\\', "'", '`', '~', 'é', '中', '1.5', '1e3',
            '-1', '<>', '<...>', '<@', '**']
EXPRS = ['1/0', '7/2', '1/2', '(3+4)/2', '1<<-1', '1>>-1', '-1', '0', '-(-(3))', '1<<64', '1<<200', '(((1)))', '2*',
         '(', ')', '()', '1 2', 'UNDEFINED_NAME', '0x', '08', '1+', '-', '1--1', '1-(-1)', '2*/3', '1<<', '4>>1>>1',
         '0/1', '5/5', '6/4*2', '1/(2-2)', '-5/2',
         # results far beyond any wire type (more decimal digits than int <-> str conversion accepts, memory-sized shifts)
         '1<<20000', '1 << 100000000000', '3<<(1<<40)', '9' * 5000, '99999999999999999999*99999999999999999999',
         '1<<63<<63<<63', '(1<<4000)>>3990', '0x' + 'F' * 4000]


def tokens(text):
    return [(m.start(), m.end(), m.group(0)) for m in TOKEN_RE.finditer(text)]


def token_corruptions(text, rng, n):
    toks = tokens(text)
    out = []
    if not toks:
        return out
    for _ in range(n):
        k = rng.random()
        i = rng.randrange(len(toks))
        s, e, t = toks[i]
        if k < 0.2:
            out.append(('delete-token', text[:s] + text[e:]))
        elif k < 0.35:
            out.append(('duplicate-token', text[:e] + ' ' + t + text[e:]))
        elif k < 0.5 and i + 1 < len(toks):
            s2, e2, t2 = toks[i + 1]
            out.append(('swap-tokens', text[:s] + t2 + text[e:s2] + t + text[e2:]))
        elif k < 0.85:
            out.append(('replace-token', text[:s] + rng.choice(ALPHABET) + text[e:]))
        else:
            out.append(('insert-token', text[:s] + rng.choice(ALPHABET) + ' ' + text[s:]))
    return out


def expression_injections(text, rng, n):
    """Replace numeric literals (constant values, sizes, discriminators) by hostile expressions."""
    nums = [(m.start(), m.end()) for m in re.finditer(r'(?<![A-Za-z_0-9])\d+(?![A-Za-z_0-9])', text)]
    out = []
    for _ in range(n):
        if not nums:
            break
        s, e = rng.choice(nums)
        out.append(('expression', text[:s] + rng.choice(EXPRS) + text[e:]))
    return out


def expression_injections_xml(xml, rng, n):
    """Replace the value of a constant / enumerator / discriminator / dimension attribute of isar XML by a hostile
    expression (XML-escaped); isar evaluates these at model time through prophyc.calc."""
    spots = [(m.start(2), m.end(2)) for m in re.finditer(r'\b(value|size|size2|discriminatorValue)="([^"]*)"', xml)]
    out = []
    for _ in range(n):
        if not spots:
            break
        s, e = rng.choice(spots)
        ex = rng.choice(EXPRS + ['shiftLeft(1, 99999999999)', 'bitMaskOr(1 << 70000, 1)', 'shiftLeft(shiftLeft(1, 4000), 4000)'])
        ex = ex.replace('&', '&amp;').replace('<', '&lt;').replace('>', '&gt;').replace('"', '&quot;')
        out.append(('isar-expression', xml[:s] + ex + xml[e:]))
    return out


STRUCTURAL = [
    ('self-recursive-struct', 'struct S { S x; };'),
    ('self-recursive-array', 'struct S { S x<>; };'),
    ('self-recursive-optional', 'struct S { S* x; };'),
    ('mutual-recursion', 'struct A { B b; };\nstruct B { A a; };'),
    ('forward-reference', 'struct A { B b; };\nstruct B { u8 x; };'),
    ('typedef-self', 'typedef T T;'),
    ('typedef-cycle', 'typedef B A;\ntypedef A B;'),
    ('const-self', 'const A = A;'),
    ('const-forward', 'const A = B;\nconst B = 1;'),
    ('enum-self', 'enum E { E_A = E_A };'),
    ('union-self', 'union U { 1: U u; };'),
    ('empty-struct', 'struct S { };'),
] + [
    # a definition that refers to itself (or to a later one that refers back), followed by every kind of use of it
    ('recursive-%s-then-%s' % (dn, un), d + '\n' + u)
    for dn, d in (('typedef-self', 'typedef T T;'), ('typedef-cycle', 'typedef B T;\ntypedef T B;'),
                  ('typedef-of-self-struct', 'struct R { T x; };\ntypedef R T;'))
    for un, u in (('sizer', 'struct S { T n; u8 x<@n>; };'), ('fixed-array', 'struct S { T x[2]; };'),
                  ('optional', 'struct S { T* x; };'), ('dynamic-array', 'struct S { T x<>; };'),
                  ('limited-array', 'struct S { T x<2>; };'), ('greedy-array', 'struct S { T x<...>; };'),
                  ('union-arm', 'union U { 1: T x; };'), ('typedef', 'typedef T T2;\nstruct S { T2 x; };'),
                  ('middle-member', 'struct S { u8 a; T t; u16 b; };'), ('nested-twice', 'struct M { T t; };\nstruct S { M m[2]; u8 z; };'))
] + [
    ('empty-union', 'union U { };'),
    ('empty-enum', 'enum E { };'),
    ('empty-file', ''),
    ('only-comment', '/* nothing */'),
    ('unterminated-comment', 'struct S { u8 a; }; /* open'),
    ('unterminated-string', '#include "x.prophy'),
    ('line-comment-no-newline', 'struct S { u8 a; }; // tail'),
    ('nul-byte', 'struct S { u8 a; };\x00'),
    ('unknown-directive', '#define X 1'),
    ('include-missing', '#include "does_not_exist.prophy"\nstruct S { u8 a; };'),
    ('include-self', '#include "sch.prophy"\nstruct S { u8 a; };'),
    ('include-dir', '#include "."\n'),
    ('include-empty', '#include ""\n'),
    ('keyword-as-name', 'struct struct { u8 a; };'),
    ('builtin-as-name', 'struct u8 { u8 a; };'),
    ('bytes-plain', 'struct S { bytes a; };'),
    ('bytes-optional', 'struct S { bytes* a; };'),
    ('array-of-array', 'struct S { u8 a[2][3]; };'),
    ('optional-array', 'struct S { u8* a[2]; };'),
    ('huge-array', 'struct S { u8 a[999999999999]; };'),
    ('huge-enum', 'enum E { E_A = 99999999999999999999 };'),
    ('negative-disc', 'union U { -1: u8 a; };'),
    ('float-sizer', 'struct S { float n; u8 a<@n>; };'),
    ('sizer-is-array', 'struct S { u8 n[2]; u8 a<@n>; };'),
    ('sizer-is-bytes', 'struct S { bytes n<>; u8 a<@n>; };'),
    ('sizer-own-counter', 'struct S { u8 a<>; u8 b<@num_of_a>; };'),
    ('name-clash-counter', 'struct S { u32 num_of_a; u8 a<>; };'),
    ('deep-parens', 'const A = ' + '(' * 200 + '1' + ')' * 200 + ';'),
    ('long-expression', 'const A = ' + '+'.join(['1'] * 3000) + ';'),
    ('many-structs', '\n'.join('struct S%d { u8 a; };' % i for i in range(400))),
    ('crlf', 'struct S\r\n{\r\n u8 a;\r\n};\r\n'),
    ('tabs', 'struct\tS\t{\tu8\ta;\t};'),
    ('bom', '﻿struct S { u8 a; };'),
    ('unicode-name', 'struct é { u8 a; };'),
    ('division', 'const A = 7 / 2;\nstruct S { u8 a[A]; };'),
    ('division-exact-used', 'const A = 8 / 2;\nconst B = A + 1;\nstruct S { u8 a[B]; };'),
    ('division-in-enum', 'enum E { E_A = 9 / 3 };\nunion U { E_A: u8 a; };'),
    ('negative-shift', 'const A = 1 << -1;'),
    ('negative-rshift', 'const A = 8 >> -1;'),
    ('shift-name', 'const N = -2;\nconst A = 1 << N;'),
    ('div-by-name-zero', 'const Z = 0;\nconst A = 1 / Z;'),
]

ISAR = [
    ('isar-cycle-structs', '<x><struct name="A"><member name="b" type="B"/></struct>'
                           '<struct name="B"><member name="a" type="A"/></struct></x>'),
    ('isar-self-struct', '<x><struct name="A"><member name="a" type="A"/></struct></x>'),
    ('isar-cycle-typedefs', '<x><typedef name="A" type="B"/><typedef name="B" type="A"/></x>'),
    ('isar-self-typedef', '<x><typedef name="A" type="A"/></x>'),
    ('isar-cycle-constants', '<x><constant name="A" value="B"/><constant name="B" value="A"/></x>'),
    ('isar-self-constant', '<x><constant name="A" value="A + 1"/></x>'),
    ('isar-cycle-3', '<x><struct name="A"><member name="b" type="B"/></struct><struct name="B"><member name="c" type="C"/>'
                     '</struct><union name="C"><member name="a" type="A" discriminatorValue="1"/></union></x>'),
    ('isar-user-before-cycle', '<x><struct name="S"><member name="a" type="A"/></struct><struct name="A"><member name="b" '
                               'type="B"/></struct><struct name="B"><member name="a" type="A"/></struct></x>'),
    ('isar-user-before-self-cycle', '<x><struct name="S"><member name="a" type="A"/></struct><struct name="A">'
                                    '<member name="a" type="A"/></struct></x>'),
    ('isar-typedef-of-recursive', '<x><typedef name="T" type="A"/><struct name="A"><member name="a" type="A"/></struct></x>'),
    ('isar-typedef-of-cycle', '<x><typedef name="T" type="A"/><struct name="A"><member name="b" type="B"/></struct>'
                              '<struct name="B"><member name="a" type="A"/></struct><struct name="Z"><member name="t" type="T"/>'
                              '</struct></x>'),
    ('isar-two-users-before-3-cycle', '<x><struct name="S1"><member name="a" type="S2"/></struct><struct name="S2"><member name="a" '
                                      'type="A"/></struct><struct name="A"><member name="b" type="B"/></struct><struct name="B">'
                                      '<member name="c" type="C"/></struct><struct name="C"><member name="a" type="A"/></struct></x>'),
    ('isar-union-user-before-cycle', '<x><union name="U"><member name="a" type="A" discriminatorValue="1"/></union><struct name="A">'
                                     '<member name="u" type="U"/></struct><struct name="Q"><member name="u" type="U"/></struct></x>'),
    ('isar-unevaluable-constant-in-arithmetic', '<x><constant name="X" value="MISSING"/><constant name="Y" value="X*2"/>'
                                                '<struct name="S"><member name="a" type="u8"><dimension size="Y"/></member></struct></x>'),
    ('isar-unevaluable-constant-in-size2', '<x><constant name="X" value="MISSING + 1"/><struct name="S"><member name="a" type="u8">'
                                           '<dimension size="X" size2="2"/></member></struct></x>'),
    ('isar-unevaluable-constant-negated', '<x><constant name="X" value="GONE"/><enum name="E"><enum-member name="E_A" value="X+1"/>'
                                          '</enum><constant name="Z" value="-X"/><struct name="S"><member name="a" type="u8">'
                                          '<dimension size="Z"/></member></struct></x>'),
    ('isar-constant-shift-of-unevaluable', '<x><constant name="X" value="NOPE"/><constant name="Y" value="shiftLeft(X, 2)"/>'
                                           '<struct name="S"><member name="a" type="u8"><dimension size="Y"/></member></struct></x>'),
    ('isar-malformed', '<x><struct name="A"><member name="a" type="u8"></struct></x>'),
    ('isar-not-xml', 'struct S { u8 a; };'),
    ('isar-empty', ''),
    ('isar-empty-root', '<x/>'),
    ('isar-missing-name', '<x><struct><member name="a" type="u8"/></struct></x>'),
    ('isar-missing-member-name', '<x><struct name="A"><member type="u8"/></struct></x>'),
    ('isar-missing-type', '<x><struct name="A"><member name="a"/></struct></x>'),
    ('isar-unknown-type', '<x><struct name="A"><member name="a" type="Nope"/></struct></x>'),
    ('isar-unknown-primitive', '<x><typedef name="T" primitiveType="128 bit integer"/></x>'),
    ('isar-typedef-no-type', '<x><typedef name="T"/></x>'),
    ('isar-constant-no-value', '<x><constant name="A"/></x>'),
    ('isar-constant-bad-value', '<x><constant name="A" value="1 +"/><struct name="S"><member name="a" type="u8">'
                                '<dimension size="A"/></member></struct></x>'),
    ('isar-constant-division', '<x><constant name="A" value="7/2"/><struct name="S"><member name="a" type="u8">'
                               '<dimension size="A"/></member></struct></x>'),
    ('isar-enum-duplicate-values', '<x><enum name="E"><enum-member name="A" value="1"/><enum-member name="B" value="1"/>'
                                   '</enum></x>'),
    ('isar-enum-duplicate-names', '<x><enum name="E"><enum-member name="A" value="1"/><enum-member name="A" value="2"/>'
                                  '</enum></x>'),
    ('isar-enum-no-value', '<x><enum name="E"><enum-member name="A"/></enum></x>'),
    ('isar-enum-text-value', '<x><enum name="E"><enum-member name="A" value="abc"/></enum></x>'),
    ('isar-enum-huge', '<x><enum name="E"><enum-member name="A" value="99999999999999999999"/></enum></x>'),
    ('isar-enum-very-negative', '<x><enum name="E"><enum-member name="A" value="-99999999999"/></enum></x>'),
    ('isar-dimension-text', '<x><struct name="S"><member name="a" type="u8"><dimension size="abc"/></member></struct></x>'),
    ('isar-dimension-negative', '<x><struct name="S"><member name="a" type="u8"><dimension size="-1"/></member></struct></x>'),
    ('isar-dimension-zero', '<x><struct name="S"><member name="a" type="u8"><dimension size="0"/></member></struct></x>'),
    ('isar-dimension-empty', '<x><struct name="S"><member name="a" type="u8"><dimension/></member></struct></x>'),
    ('isar-dimension-size2-only', '<x><struct name="S"><member name="a" type="u8"><dimension size2="3"/></member></struct></x>'),
    ('isar-dimension-at-missing', '<x><struct name="S"><member name="a" type="u8"><dimension isVariableSize="true" '
                                  'variableSizeFieldName="@nope"/></member></struct></x>'),
    ('isar-dimension-at-empty', '<x><struct name="S"><member name="a" type="u8"><dimension isVariableSize="true" '
                                'variableSizeFieldName=""/></member></struct></x>'),
    ('isar-variable-no-sizer', '<x><struct name="S"><member name="a" type="u8"><dimension '
                               'size="THIS_IS_VARIABLE_SIZE_ARRAY"/></member></struct></x>'),
    ('isar-optional-array', '<x><struct name="S"><member name="a" type="u8" optional="true"><dimension size="3"/></member>'
                            '</struct></x>'),
    ('isar-duplicate-struct', '<x><struct name="S"><member name="a" type="u8"/></struct><struct name="S">'
                              '<member name="b" type="u8"/></struct></x>'),
    ('isar-duplicate-member', '<x><struct name="S"><member name="a" type="u8"/><member name="a" type="u8"/></struct></x>'),
    ('isar-union-no-disc', '<x><union name="U"><member name="a" type="u8"/></union></x>'),
    ('isar-union-text-disc', '<x><union name="U"><member name="a" type="u8" discriminatorValue="abc"/></union></x>'),
    ('isar-union-dup-disc', '<x><union name="U"><member name="a" type="u8" discriminatorValue="1"/>'
                            '<member name="b" type="u8" discriminatorValue="1"/></union></x>'),
    ('isar-include-missing', '<x xmlns:xi="http://www.w3.org/2001/XInclude"><xi:include href="nope.xml"/></x>'),
    ('isar-include-self', '<x xmlns:xi="http://www.w3.org/2001/XInclude"><xi:include href="sch.xml"/></x>'),
    ('isar-shiftLeft', '<x><constant name="A" value="shiftLeft(1, 4)"/></x>'),
    ('isar-shiftLeft-unbalanced', '<x><constant name="A" value="shiftLeft(1, 4"/></x>'),
    ('isar-bitMaskOr-nested', '<x><constant name="A" value="bitMaskOr(shiftLeft(1,2), bitMaskOr(1, 2))"/></x>'),
    ('isar-deep-nesting', '<x>' + '<a>' * 300 + '</a>' * 300 + '</x>'),
    ('isar-entity', '<?xml version="1.0"?><!DOCTYPE x [<!ENTITY e "u8">]><x><struct name="S"><member name="a" type="&e;"/>'
                    '</struct></x>'),
    ('isar-message-limited', '<x><message name="M"><member name="a" type="u8"><dimension isVariableSize="true" size="3"/>'
                             '</member></message></x>'),
]

PATCH_BASE_ISAR = ('<x><struct name="S"><member name="n" type="u32"/><member name="a" type="u8"><dimension size="3"/>'
                   '</member><member name="b" type="u8"/></struct><union name="U"><member name="x" type="u8" '
                   'discriminatorValue="1"/></union><enum name="E"><enum-member name="E_A" value="1"/></enum></x>')
PATCHES = [
    ('patch-unknown-action', 'S frobnicate a\n'),
    ('patch-one-word', 'S\n'),
    ('patch-empty', '\n\n'),
    ('patch-type-arity', 'S type a\n'),
    ('patch-type-absent-member', 'S type nope u8\n'),
    ('patch-type-unknown-type', 'S type a Nope\n'),
    ('patch-insert-nonnumeric', 'S insert x c u8\n'),
    ('patch-insert-negative', 'S insert -5 c u8\n'),
    ('patch-insert-huge', 'S insert 999 c u8\n'),
    ('patch-insert-duplicate', 'S insert 0 a u8\n'),
    ('patch-remove-absent', 'S remove nope\n'),
    ('patch-remove-all', 'S remove n\nS remove a\nS remove b\n'),
    ('patch-remove-sizer', 'S dynamic a n\nS remove n\n'),
    ('patch-dynamic-absent-sizer', 'S dynamic a nope\n'),
    ('patch-dynamic-self', 'S dynamic a a\n'),
    ('patch-dynamic-sizer-after', 'S dynamic a b\n'),
    ('patch-greedy-not-last', 'S greedy a\n'),
    ('patch-greedy-arity', 'S greedy\n'),
    ('patch-static-text', 'S static a abc\n'),
    ('patch-static-zero', 'S static a 0\n'),
    ('patch-static-negative', 'S static a -1\n'),
    ('patch-limited-absent-sizer', 'S limited a nope\n'),
    ('patch-limited-on-scalar', 'S limited b n\n'),
    ('patch-struct-on-struct', 'S struct\n'),
    ('patch-struct-params', 'U struct x\n'),
    ('patch-struct-ok', 'U struct\n'),
    ('patch-rename-arity', 'S rename\n'),
    ('patch-rename-3', 'S rename a b c\n'),
    ('patch-rename-to-existing-member', 'S rename a b\n'),
    ('patch-rename-to-existing-node', 'S rename U\n'),
    ('patch-rename-enum-member', 'E rename E_A E_B\n'),
    ('patch-type-on-union', 'U type x u16\n'),
    ('patch-type-on-enum', 'E type E_A u8\n'),
    ('patch-absent-message', 'Nope type a u8\nNope frobnicate\n'),
    ('patch-absent-message-one-word-params', 'Nope remove\n'),
    ('patch-unicode', 'S rename a é\n'),
    ('patch-greedy-ok', 'S remove b\nS greedy a\n'),
]
# words that look like numbers to one test (str.isdigit, a regex, int()) and not to another
NUMBERLIKE = ['--1', '---2', '-', '--', '+1', '-+1', '1.5', '0x1', '0b1', '1e3', '1_0', '-0', '00', '\u00b2', '1\u00b2',
              '-\u2460', '\uff11', '\u0663', '1-', '1 ', '\u0b67']
PATCHES += [('patch-insert-numberlike', 'S insert %s c u8\n' % w) for w in NUMBERLIKE]
PATCHES += [('patch-static-numberlike', 'S static a %s\n' % w) for w in NUMBERLIKE]
