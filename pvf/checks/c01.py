"""C01 - Python encode emits exactly the documented wire format (DESIGN 3/C01)."""
from .. import schema as S, wire as W, values as V, pyrt
from ..harness import Acc
from . import common as C

PROP = 'C01'
RULE = ("every struct/union of generated schemas (exhaustive member sequences over the palette, wrappers, greedy "
        "tails, random deep schemas) x default/max/odd/random values x both byte orders; Message.encode() compared "
        "byte-for-byte with the doc-derived reference encoder; a case is distinct by the (kind,width) sequence of its "
        "encoded spans and non-trivial when it has >=2 value spans and padding or a dynamic part")
ASSUMPTIONS = [
    "reference encoder (pvf/wire.py) transcribes docs/encoding.rst; self-checked against the doc's worked examples",
    "values are set through the documented public API only",
    "a fresh (never assigned) message is a value too: its encoding is compared with the reference default",
]
REQUIRED_FEATURES = ['scalar/1', 'scalar/2', 'scalar/4', 'scalar/8', 'counter/4', 'flag/4', 'disc/4', 'enum/4',
                     'sizer/1', 'bytes', 'pad', 'block-pad', 'greedy', 'fresh-default']


def shards(ctx):
    return C.py_specs(ctx)


def replay_spec(ctx, witness):
    return C.replay_spec_generic(ctx, witness)


def check_case(acc, sch, w, mod, tname, tags, mode, v, endian, fresh=False):
    exp, spans = w.encode(tname, v, endian)
    acc.ev()
    stiff = w.tinfo(tname)[2]
    if C.nontrivial(spans, stiff):
        acc.sig(C.span_sig(spans) + endian)
    for o, wd, k, p in spans:
        acc.feature(k if k in ('bytes', 'pad') else '%s/%d' % (k, wd))
    if w.last_greedy_end is not None:
        acc.feature('greedy')

    def witness(**kw):
        sub = sch.closure(tname)
        wit = {'schema_json': sub.to_json(), 'schema': sub.to_prophy(), 'type': tname,
               'tags': tags, 'mode': mode, 'value': C.jsonable(v), 'endian': endian, 'expected': C.hexs(exp),
               'fresh': fresh}
        wit.update(kw)
        return wit
    try:
        m = getattr(mod, tname)()
        if not fresh:
            # alternately every field assigned / the fewest operations (fields holding their default are never touched)
            pyrt.build(m, sch, tname, v, sparse=(acc.p['evaluations'] % 2 == 1))
            acc.count('sparse_builds' if acc.p['evaluations'] % 2 == 1 else 'dense_builds')
        got = m.encode(endian)
    except Exception as e:  # noqa
        mech = ('fresh-' if fresh else '') + 'encode-raises:' + type(e).__name__ + ':' + _errclass(e)
        if fresh and isinstance(e, TypeError) and C.default_reaches_unsized_bytes(sch, tname):
            mech = 'fresh-message-unset-bytes-default-is-str'
        acc.violation(PROP, mech, witness(error='%s: %s' % (type(e).__name__, e)))
        return
    acc.count('bytes_compared', len(exp))
    acc.count('padding_bytes_seen', sum(s[1] for s in spans if s[2] == 'pad'))
    if got != exp:
        off = C.first_diff(got, exp)
        kind, path = C.span_at(spans, off)
        rel = 'same-len' if len(got) == len(exp) else ('shorter' if len(got) < len(exp) else 'longer')
        acc.violation(PROP, 'encode-diff:%s:%s' % (kind, rel),
                      witness(got=C.hexs(got), first_diff=off, expected_role_at_diff=[kind, path]))
    elif len(acc.p['samples']) < 3 and C.nontrivial(spans, stiff):
        acc.sample({'schema': sch.closure(tname).to_prophy(), 'type': tname, 'value': C.jsonable(v),
                    'endian': endian, 'bytes': C.hexs(exp)})


def _errclass(e):
    s = str(e)
    for key in ('str', 'bytes', 'format requires', 'argument out of range', 'required argument'):
        if key in s:
            return key.replace(' ', '-')
    return 'other'


def run_shard(spec):
    acc = Acc()
    with C.Workdir() as wd:
        for sch, names, tagmap, mod, nodes, rng in C.iter_py_schemas(spec, acc, wd):
            w = W.Wire(sch)
            for n in names:
                L = w.layout(n) if sch.by_name[n].kind == 'struct' else None
                if L is not None and len(L.blocks) > 1:
                    acc.feature('block-pad')
                if spec['kind'] == 'replay':
                    ex = spec['extra']
                    check_case(acc, sch, w, mod, n, ['replay'], ex.get('mode'), C.unjson(ex['value']), ex['endian'],
                               ex.get('fresh', False))
                    continue
                vals = V.value_set(sch, w, n, rng, nrand=spec['nrand'], aligned_greedy=False)
                for mode, v in vals:
                    for e in '<>':
                        check_case(acc, sch, w, mod, n, tagmap[n], mode, v, e)
                # fresh message, nothing assigned
                dv = V.Gen(sch, rng).type_value(n, 'default')
                acc.feature('fresh-default')
                for e in '<>':
                    check_case(acc, sch, w, mod, n, tagmap[n], 'fresh', dv, e, fresh=True)
    return acc.done()


def finish(ctx, merged, specs):
    merged['exhaustive'] = False
    merged['exhaustive_note'] = C.exhaustive_note(ctx)
    missing = [f for f in REQUIRED_FEATURES if f not in merged['features']]
    if missing and not merged['inconclusive'] and specs and specs[0]['kind'] != 'replay':
        merged['inconclusive'] = 'coverage floor not met, features never observed: %s' % missing
