"""C02 - Python decode inverts encode and consumes exactly the message (DESIGN 3/C02)."""
from .. import schema as S, wire as W, values as V, pyrt
from ..harness import Acc
from . import common as C

PROP = 'C02'
RULE = ("canonical bytes from the reference encoder (not the codec's own output) for every struct/union of the "
        "generated schemas x default/max/odd/random values (greedy tails ending aligned) x both byte orders are decoded "
        "into a fresh message: must not raise, must return len(bytes), read back field-for-field (enum .name too), "
        "and re-encode to the same bytes; distinct by span-layout signature, non-trivial as in C01")
ASSUMPTIONS = [
    "reference encoder as in C01",
    "greedy tails are generated so that the data ends on the top-level alignment boundary (documented exception excluded)",
    "decoding into a message that already holds another value is executed and counted but is not a verdict",
]
REQUIRED_FEATURES = ['counter/4', 'flag/4', 'disc/4', 'enum/4', 'sizer/1', 'bytes', 'pad', 'greedy', 'opt-absent', 'count-65536',
                     'opt-present', 'limited-empty', 'limited-full']


def shards(ctx):
    return C.py_specs(ctx)


def replay_spec(ctx, witness):
    return C.replay_spec_generic(ctx, witness)


def _features(acc, sch, tname, v, spans, w):
    for o, wd, k, p in spans:
        acc.feature(k if k in ('bytes', 'pad') else '%s/%d' % (k, wd))
    if w.last_greedy_end is not None:
        acc.feature('greedy')
    r = sch.resolve(tname)
    if r.kind == 'struct':
        for m in r.members:
            if m.name not in v:
                continue
            if m.kind == S.OPTIONAL:
                acc.feature('opt-absent' if v[m.name] is None else 'opt-present')
            if m.kind == S.LIMITED:
                if len(v[m.name]) == 0:
                    acc.feature('limited-empty')
                if len(v[m.name]) == m.size:
                    acc.feature('limited-full')


def enum_names(sch, tname, v, out):
    """Expected enum .name strings in read order."""
    r = sch.resolve(tname)
    if isinstance(r, str):
        return
    if r.kind == 'enum':
        out.append([x[0] for x in r.members if x[1] == v][-1])
    elif r.kind == 'union':
        arm = [a for a in r.arms if a[2] == v[0]][0]
        enum_names(sch, arm[1], v[1], out)
    else:
        for m in r.members:
            if m.name not in v or m.type == 'byte':
                continue
            x = v[m.name]
            if m.kind == S.PLAIN:
                enum_names(sch, m.type, x, out)
            elif m.kind == S.OPTIONAL:
                if x is not None:
                    enum_names(sch, m.type, x, out)
            else:
                for e in x:
                    enum_names(sch, m.type, e, out)


def check_case(acc, sch, w, mod, tname, tags, mode, v, endian, prev=None):
    exp, spans = w.encode(tname, v, endian)
    acc.ev()
    stiff = w.tinfo(tname)[2]
    if C.nontrivial(spans, stiff):
        acc.sig(C.span_sig(spans) + endian)
    _features(acc, sch, tname, v, spans, w)

    def witness(**kw):
        sub = sch.closure(tname)
        wit = {'schema_json': sub.to_json(), 'schema': sub.to_prophy(), 'type': tname, 'tags': tags, 'mode': mode,
               'value': C.jsonable(v), 'endian': endian, 'input': C.hexs(exp)}
        wit.update(kw)
        return wit

    cls = getattr(mod, tname)
    try:
        m = cls()
        n = m.decode(exp, endian)
    except Exception as e:  # noqa
        acc.violation(PROP, 'decode-raises:%s:%s' % (type(e).__name__, _errclass(e)),
                      witness(error='%s: %s' % (type(e).__name__, e)))
        return
    acc.count('bytes_decoded', len(exp))
    if n != len(exp):
        acc.violation(PROP, 'decode-consumed-length', witness(returned=n, expected=len(exp)))
        return
    try:
        names = []
        back = pyrt.read(m, sch, tname, names)
    except Exception as e:  # noqa
        acc.violation(PROP, 'read-raises:%s' % type(e).__name__, witness(error='%s: %s' % (type(e).__name__, e)))
        return
    if back != v:
        acc.violation(PROP, 'decode-value-differs', witness(read_back=C.jsonable(back)))
        return
    expn = []
    enum_names(sch, tname, v, expn)
    if names != expn:
        acc.violation(PROP, 'enum-name-differs', witness(names=names, expected_names=expn))
        return
    acc.count('enum_names_checked', len(expn))
    try:
        re = m.encode(endian)
    except Exception as e:  # noqa
        acc.violation(PROP, 'reencode-raises:%s' % type(e).__name__, witness(error='%s: %s' % (type(e).__name__, e)))
        return
    if re != exp:
        off = C.first_diff(re, exp)
        acc.violation(PROP, 'reencode-differs:%s' % C.span_at(spans, off)[0], witness(reencoded=C.hexs(re)))
        return
    if len(acc.p['samples']) < 3 and C.nontrivial(spans, stiff):
        acc.sample({'schema': sch.closure(tname).to_prophy(), 'type': tname, 'value': C.jsonable(v),
                    'endian': endian, 'bytes': C.hexs(exp), 'decode_returned': n})
    # the message's OWN encoding (whatever the encoder wrote): a message built through the API - alternately with
    # every field assigned and with the fewest operations (defaults never touched) - encodes, and that encoding
    # decodes into a fresh message to the same value and length
    for sparse in ((False, True) if 'replay' in tags else (acc.p['evaluations'] % 2 == 1,)):
        try:
            src = cls()
            pyrt.build(src, sch, tname, v, sparse=sparse)
            own = src.encode(endian)
        except Exception as e:  # noqa
            if isinstance(e, TypeError) and C.default_reaches_unsized_bytes(sch, tname):
                acc.count('own_encoding_not_judged_unset_bytes_default_is_str(C01 known finding)')
            else:
                acc.count('own_encoding_not_available(build or encode raised: C01/C10 subject)')
            own = None
        if own is None:
            continue
        if True:
            acc.count('own_encodings_decoded_sparse' if sparse else 'own_encodings_decoded_dense')
            try:
                m3 = cls()
                n3 = m3.decode(own, endian)
                back3 = pyrt.read(m3, sch, tname)
                re3 = m3.encode(endian)
            except Exception as e:  # noqa
                acc.violation(PROP, 'own-encoding:decode-raises:%s:%s' % (type(e).__name__, _errclass(e)),
                              witness(own_encoding=C.hexs(own), sparse_build=sparse, error='%s: %s' % (type(e).__name__, e)))
                return
            if n3 != len(own) or back3 != v or re3 != own:
                acc.violation(PROP, 'own-encoding:%s' % ('decode-consumed-length' if n3 != len(own) else
                                                         'decode-value-differs' if back3 != v else 'reencode-differs'),
                              witness(own_encoding=C.hexs(own), sparse_build=sparse, returned=n3,
                                      read_back=C.jsonable(back3), reencoded=C.hexs(re3)))
                return
    # observation only: decode into a message that already holds another value
    if prev is not None:
        try:
            m2 = cls()
            pyrt.build(m2, sch, tname, prev)
            m2.decode(exp, endian)
            same = pyrt.read(m2, sch, tname) == v
            acc.count('decode_into_used_message_same' if same else 'decode_into_used_message_differs')
        except Exception:  # noqa
            acc.count('decode_into_used_message_raises')


def _errclass(e):
    s = str(e)
    for key in ('not all bytes', 'too few bytes', 'unknown enumerator', 'unknown discriminator', 'over 65536'):
        if key in s:
            return key.replace(' ', '-')
    return 'other'


def check_guard_boundary(acc, wd):
    """Element counts at the decoder's array guard: 65535 and 65536 elements are the largest the codec reads back."""
    M = S.Member
    sch = S.Schema([S.Struct('GB1', [M('x', 'u8', S.DYNAMIC)]),
                    S.Struct('GB2', [M('n', 'u32'), M('a', 'u16', S.EXT, sizer='n'), M('b', 'byte', S.EXT, sizer='n'),
                                     M('t', 'u8')]),
                    S.Struct('GBE', [M('a', 'u8'), M('b', 'u8')]),
                    S.Struct('GB3', [M('n', 'i64'), M('e', 'GBE', S.EXT, sizer='n')])])
    try:
        mod, nodes = pyrt.compile_python(sch.to_prophy(), wd)
    except pyrt.CompileFailed as e:
        acc.prereq({'stage': e.stage, 'error': str(e)[:300]})
        return
    w = W.Wire(sch)
    for n in (65535, 65536):
        acc.feature('count-%d' % n)
        check_case(acc, sch, w, mod, 'GB1', ['guard-boundary'], 'count-%d' % n, {'x': [7] * n}, '<')
        check_case(acc, sch, w, mod, 'GB2', ['guard-boundary'], 'count-%d' % n,
                   {'a': [0x1234] * n, 'b': b'\x5a' * n, 't': 9}, '>')
        check_case(acc, sch, w, mod, 'GB3', ['guard-boundary'], 'count-%d' % n, {'e': [{'a': 1, 'b': 2}] * n}, '<')


def check_packed(acc):
    """Packed mode (docs/python_codec.rst): a generated descriptor re-based on prophy.struct_packed has no padding at
    all; packed structs nested in packed structs, in arrays and optionals. Expected bytes: the fields one after the other."""
    import struct as _st
    import prophy

    def mk(name, desc):
        return prophy.struct_generator(name, (prophy.struct_packed,), {'_descriptor': desc})
    In = mk('PkIn', [('a', prophy.u32), ('b', prophy.u8)])
    Dyn = mk('PkDyn', [('n', prophy.u32), ('d', prophy.array(prophy.u8, bound='n'))])
    Top = mk('PkTop', [('x', prophy.u8), ('y', prophy.u32), ('z', prophy.u8)])
    Nest = mk('PkNest', [('h', prophy.u8), ('i', In), ('t', prophy.u16)])
    Arr = mk('PkArr', [('k', prophy.u8), ('e', prophy.array(In, size=2)), ('t', prophy.u8)])
    Seq = mk('PkSeq', [('m', prophy.u8), ('s', prophy.array(Dyn, bound='m')), ('t', prophy.u32)])
    for e in '<>':
        cases = []
        t = Top(); t.x, t.y, t.z = 1, 0x01020304, 9
        cases.append(('PkTop', Top, t, _st.pack(e + 'BIB', 1, 0x01020304, 9)))
        i = In(); i.a, i.b = 0x0a0b0c0d, 7
        cases.append(('PkIn', In, i, _st.pack(e + 'IB', 0x0a0b0c0d, 7)))
        n = Nest(); n.h = 5; n.i.a, n.i.b = 77, 8; n.t = 0x1234
        cases.append(('PkNest', Nest, n, _st.pack(e + 'BIBH', 5, 77, 8, 0x1234)))
        a = Arr(); a.k = 3; a.e[0].a, a.e[0].b, a.e[1].a, a.e[1].b = 1, 2, 3, 4; a.t = 6
        cases.append(('PkArr', Arr, a, _st.pack(e + 'BIBIBB', 3, 1, 2, 3, 4, 6)))
        for lens in ((), (1,), (3, 0), (2, 5)):
            q = Seq(); q.t = 0xdeadbeef
            exp = _st.pack(e + 'B', len(lens))
            for ln in lens:
                el = q.s.add()
                el.d[:] = list(range(1, ln + 1))
                exp += _st.pack(e + 'I', ln) + bytes(bytearray(range(1, ln + 1)))
            exp += _st.pack(e + 'I', 0xdeadbeef)
            cases.append(('PkSeq%r' % (lens,), Seq, q, exp))
        for name, cls, msg, exp in cases:
            acc.ev()
            acc.count('packed_round_trips')
            wit = {'packed_type': name, 'endian': e, 'expected': C.hexs(exp)}
            try:
                enc = msg.encode(e)
                m2 = cls()
                used = m2.decode(exp, e)
                again = m2.encode(e)
            except Exception as ex:  # noqa
                acc.violation(PROP, 'packed:raises:%s' % type(ex).__name__, dict(wit, error='%s: %s' % (type(ex).__name__, ex)))
                continue
            if enc != exp or used != len(exp) or again != exp:
                acc.violation(PROP, 'packed:%s' % ('encode-differs' if enc != exp else 'decode-consumed-length' if used != len(exp)
                                                   else 'reencode-differs'),
                              dict(wit, encoded=C.hexs(enc), consumed=used, reencoded=C.hexs(again)))


def run_shard(spec):
    acc = Acc()
    with C.Workdir() as wd:
        if spec.get('seed', 1) % 1000 == 0 and spec['kind'] != 'replay':
            check_guard_boundary(acc, wd)
            check_packed(acc)
        for sch, names, tagmap, mod, nodes, rng in C.iter_py_schemas(spec, acc, wd):
            w = W.Wire(sch)
            for n in names:
                if spec['kind'] == 'replay':
                    ex = spec['extra']
                    check_case(acc, sch, w, mod, n, ['replay'], ex.get('mode'), C.unjson(ex['value']), ex['endian'])
                    continue
                vals = V.value_set(sch, w, n, rng, nrand=spec['nrand'], aligned_greedy=True)
                prev = None
                for mode, v in vals:
                    for e in '<>':
                        check_case(acc, sch, w, mod, n, tagmap[n], mode, v, e, prev)
                    prev = v
    return acc.done()


def finish(ctx, merged, specs):
    merged['exhaustive_note'] = C.exhaustive_note(ctx)
    missing = [f for f in REQUIRED_FEATURES if f not in merged['features']]
    if missing and not merged['inconclusive'] and specs and specs[0]['kind'] != 'replay':
        merged['inconclusive'] = 'coverage floor not met, features never observed: %s' % missing
