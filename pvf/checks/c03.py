"""C03 - Python and generated C++ full codec are wire-compatible for every message (DESIGN 3/C03)."""
from .. import schema as S, values as V, pyrt, cppdrv
from ..harness import Acc
from . import common as C, cppcommon as CC

PROP = 'C03'
RULE = ("generated schemas (member sequences over the palette packed ~100 structs per file, wrappers, random deep "
        "schemas; one ext-sized array per sizer) are compiled by prophyc --cpp_full_out, built with clang++ "
        "ASan+UBSan and driven with canonical reference bytes and with the Python codec's own bytes for "
        "default/max/odd/random values (greedy tails aligned) x {little, big, native}: C++ decode must succeed and "
        "encode<E>() of the decoded object must return the identical bytes; native must equal the host order. "
        "distinct by span-layout signature, non-trivial as in C01")
ASSUMPTIONS = [
    "reference encoder as in C01",
    "schemas restricted as the property states: one externally sized array per sizer, greedy tails ending aligned",
    "input buffers are exact-size heap blocks (16-aligned), so a silent out-of-bounds 'success' becomes an ASan report",
]
TIMEOUT = {'quick': 1500, 'thorough': 10800}
WORKERS = 10   # clang scales poorly beyond ~8 parallel compiles in this sandbox (page-fault bound)
ENDIANS = (('<', 1), ('>', 2), ('<', 0))  # (reference byte order, driver selector); native == little on this host


def shards(ctx):
    return CC.cpp_specs(ctx)


def replay_spec(ctx, witness):
    return {'cpp': True, 'kind': 'replay', 'schema': witness['schema_json'], 'type': witness['type'], 'seed': 0,
            'extra': witness}


def run_shard(spec):
    acc = Acc()
    with C.Workdir() as wd:
        env = CC.open_full(spec, acc, wd, want_python=True)
        if env is None:
            return acc.done()
        sch, names, tagmap, w, rng, mod = env['sch'], env['names'], env['tagmap'], env['wire'], env['rng'], env['mod']
        cases = []
        info = {}
        for ti, n in enumerate(names):
            if spec['kind'] == 'replay':
                ex = spec['extra']
                vals = [(ex.get('mode'), C.unjson(ex['value']))]
            else:
                vals = V.value_set(sch, w, n, rng, nrand=2, aligned_greedy=True)
            for mode, v in vals:
                pyb = {}
                if mod is not None:
                    try:
                        m = getattr(mod, n)()
                        pyrt.build(m, sch, n, v)
                        pyb = {'<': m.encode('<'), '>': m.encode('>')}
                    except Exception:  # noqa - C01's business
                        acc.count('python_encode_raised_not_judged_here')
                for e, sel in ENDIANS:
                    exp, spans = w.encode(n, v, e)
                    cid = 'c%d' % len(cases)
                    cases.append((cid, ti, sel, 0, exp))
                    info[cid] = (n, mode, v, e, sel, exp, spans, 'reference')
                    # the same bytes into the one long-lived object of the type, which still holds the previous value
                    cid = 'c%d' % len(cases)
                    cases.append((cid, ti, sel, 4, exp))
                    info[cid] = (n, mode, v, e, sel, exp, spans, 'reference-into-used-object')
                    pb = pyb.get(e)
                    if pb is not None and pb != exp:
                        cid = 'c%d' % len(cases)
                        cases.append((cid, ti, sel, 0, pb))
                        info[cid] = (n, mode, v, e, sel, pb, spans, 'python')
                    elif pb is not None:
                        acc.count('python_bytes_identical_to_reference')
        res, reports = cppdrv.run_cases(env['binary'], cases)
        for cid, (n, mode, v, e, sel, data, spans, origin) in info.items():
            acc.ev()
            stiff = w.tinfo(n)[2]
            if C.nontrivial(spans, stiff):
                acc.sig(C.span_sig(spans) + str(sel))
            acc.feature('endian-%d' % sel)

            def witness(**kw):
                sub = sch.closure(n)
                wit = {'schema_json': sub.to_json(), 'schema': sub.to_prophy(), 'type': n, 'tags': tagmap[n],
                       'mode': mode, 'value': C.jsonable(v), 'endian': e, 'selector': sel, 'input': C.hexs(data),
                       'input_origin': origin, 'op': 4 if origin.endswith('used-object') else 0}
                wit.update(kw)
                return wit
            r = res.get(cid)
            if r is None:
                acc.count('cases_not_executed')
                continue
            if CC.reaches_misaligned_optional(sch, w, n):
                # known finding: every deviation on such a type is attributed to it, nothing else is judged
                bad = 'crash' in r or not r.get('ok') or {0: r.get('N'), 1: r.get('L'), 2: r.get('B')}[sel] != data
                if bad:
                    acc.violation(PROP, CC.OPT_ALIGN_MECH, witness())
                else:
                    acc.count('bytes_compared', len(data))
                continue
            if r.get('timeout'):
                acc.p['inconclusive'] = 'driver watchdog fired'
                continue
            if 'crash' in r:
                mech, frames = CC.crash_mechanism(r)
                acc.violation(PROP, 'sanitizer:' + mech, witness(report=r['crash'][:3000], frames=frames))
                continue
            acc.count('cpp_decodes')
            if not r.get('ok'):
                acc.violation(PROP, 'cpp-rejects-%s-bytes' % origin, witness())
                continue
            enc = {0: r.get('N'), 1: r.get('L'), 2: r.get('B')}[sel]
            if enc != data:
                off = C.first_diff(enc or b'', data)
                acc.violation(PROP, 'cpp-reencode-differs:%s' % C.span_at(spans, off)[0],
                              witness(reencoded=C.hexs(enc or b''), first_diff=off))
                continue
            if r.get('N') != r.get('L'):
                acc.violation(PROP, 'cpp-native-is-not-host-order', witness(native=C.hexs(r.get('N') or b''),
                                                                           little=C.hexs(r.get('L') or b'')))
                continue
            acc.count('bytes_compared', len(data))
            if len(acc.p['samples']) < 3 and C.nontrivial(spans, stiff):
                acc.sample({'schema': sch.closure(n).to_prophy(), 'type': n, 'value': C.jsonable(v), 'endian': e,
                            'bytes': C.hexs(data), 'cpp_decode': True, 'cpp_reencode_identical': True})
        for rep in reports:
            if rep.get('timeout'):
                acc.p['inconclusive'] = 'driver watchdog fired'
            else:
                acc.violation(PROP, 'sanitizer-at-exit:' + (cppdrv.san_class(rep.get('stderr', '')) or 'rc=%s' % rep.get('rc')),
                              {'schema': sch.to_prophy()[:3000], 'report': rep.get('stderr', '')[:3000]})
    return acc.done()


def finish(ctx, merged, specs):
    if specs and specs[0]['kind'] == 'replay':
        return
    need = ['endian-0', 'endian-1', 'endian-2']
    missing = [f for f in need if f not in merged['features']]
    if not merged['counters'].get('cpp_decodes'):
        missing.append('cpp_decodes')
    if missing and not merged['inconclusive']:
        merged['inconclusive'] = 'coverage floor not met: %s (prerequisite failures: %s)' % (
            missing, merged['counters'].get('prerequisite_failures', 0))
