"""C04 - prophyc's computed layout equals the wire rules and both runtimes' statics (DESIGN 3/C04)."""
from .. import schema as S, wire as W, values as V, pyrt
from ..harness import Acc
from . import common as C

PROP = 'C04'
RULE = ("for every struct/union/typedef of the generated schemas: (size, alignment, stiffness) of prophyc's model nodes, "
        "per-member (byte_size, alignment, padding) of fixed structs, the Python class statics "
        "_SIZE/_ALIGNMENT/_DYNAMIC/_UNLIMITED, the C++ encoded_byte_size / sizeof constants (compiled driver) and "
        "len(encode()) of fixed types are compared with the doc-derived reference layout; distinct = distinct "
        "(member kind/size/alignment) layout signatures, non-trivial = >=2 wire fields")
ASSUMPTIONS = [
    "reference layout (pvf/wire.py) transcribes docs/encoding.rst",
    "for non-fixed types no single size is defined by the doc: only alignment and stiffness are compared",
    "model member paddings are compared for fixed structs only (negative 'dynamic' paddings are decided behaviourally by C03/C05/C08)",
]
KINDNAME = {0: 'fixed', 1: 'dynamic', 2: 'unlimited'}
TIMEOUT = {'quick': 1500, 'thorough': 10800}


def shards(ctx):
    specs = C.py_specs(ctx, rand_quick=120, rand_thorough=3000)
    from . import c04cpp
    return specs + c04cpp.shards(ctx)


def replay_spec(ctx, witness):
    if witness.get('cpp'):
        from . import c04cpp
        return c04cpp.replay_spec(ctx, witness)
    return C.replay_spec_generic(ctx, witness)


def model_index(nodes):
    import prophyc.model as M
    idx = {}
    for base, lst in nodes.items():
        for n in lst:
            if isinstance(n, (M.Struct, M.Union, M.Typedef, M.Enum)):
                idx[n.name] = n
    return idx


def layout_sig(w, sch, name):
    d = sch.by_name[name]
    if d.kind == 'union':
        return repr(('U', [w.tinfo(a[1]) for a in d.arms]))
    return repr(('S', [(f.role, f.member.kind, f.size, f.align, f.stiff) for f in w.fields(d)]))


def check_type(acc, sch, w, mod, midx, name, tags):
    import prophyc.model as M
    d = sch.by_name[name]
    size, align, stiff = w.tinfo(name)
    acc.ev()
    nfields = len(w.fields(d)) if d.kind == 'struct' else (len(d.arms) if d.kind == 'union' else 0)
    if nfields >= 2:
        acc.sig(layout_sig(w, sch, name))
    acc.feature('stiff-' + KINDNAME[stiff])

    def witness(**kw):
        sub = sch.closure(name)
        wit = {'schema_json': sub.to_json(), 'schema': sub.to_prophy(), 'type': name, 'tags': tags,
               'reference': {'size': size, 'alignment': align, 'stiffness': KINDNAME[stiff]}}
        wit.update(kw)
        return wit

    # --- model
    node = midx.get(name)
    if node is None:
        acc.violation(PROP, 'model-node-missing', witness())
        return
    tri = {'model': [node.byte_size, node.alignment, node.kind]}
    if d.kind == 'typedef':
        if node.kind != stiff:
            acc.violation(PROP, 'model-typedef-stiffness', witness(triangulation=tri))
        acc.count('typedefs_checked')
        return
    if node.kind != stiff:
        lesser = 'lesser' if node.kind < stiff else 'greater'
        acc.violation(PROP, 'model-stiffness-%s' % lesser, witness(triangulation=tri))
    if node.alignment != align:
        acc.violation(PROP, 'model-alignment', witness(triangulation=tri))
    if stiff == S.FIXED_S and node.byte_size != size:
        acc.violation(PROP, 'model-size', witness(triangulation=tri))
    acc.count('model_nodes_checked')
    if d.kind == 'struct':
        L = w.layout(name)
        fs = [f for b in L.blocks for f in b]
        if len(fs) != len(node.members):
            acc.violation(PROP, 'model-member-count', witness(model_members=[m.name for m in node.members]))
        else:
            flat_offs = []
            for bi, b in enumerate(L.blocks):
                for fi, f in enumerate(b):
                    exp_align = L.block_align[bi] if (bi and fi == 0) else f.align
                    flat_offs.append((f, L.offsets[bi][fi], exp_align, bi))
            for i, ((f, off, exp_align, bi), mm) in enumerate(zip(flat_offs, node.members)):
                exp_size = f.size if f.size is not None else 0
                if f.stiff != S.FIXED_S and f.member.kind == S.PLAIN and f.role == "member":
                    exp_size = None   # nested dynamic struct: model carries the struct's own partial size
                if mm.alignment != exp_align:
                    acc.violation(PROP, 'model-member-alignment',
                                  witness(member=mm.name, model=mm.alignment, reference=exp_align))
                if exp_size is not None and mm.byte_size != exp_size:
                    acc.violation(PROP, 'model-member-size',
                                  witness(member=mm.name, model=mm.byte_size, reference=exp_size))
                if stiff == S.FIXED_S:
                    end = off + f.size
                    nxt = flat_offs[i + 1][1] if i + 1 < len(flat_offs) else size
                    if mm.padding != nxt - end:
                        acc.violation(PROP, 'model-member-padding',
                                      witness(member=mm.name, model=mm.padding, reference=nxt - end))
                acc.count('model_members_checked')
    # --- python statics
    cls = getattr(mod, name)
    py = [getattr(cls, '_SIZE', None), cls._ALIGNMENT, bool(cls._DYNAMIC), bool(cls._UNLIMITED)]
    tri['python'] = py
    if cls._ALIGNMENT != align:
        acc.violation(PROP, 'python-alignment', witness(triangulation=tri))
    if bool(cls._DYNAMIC) != (stiff != S.FIXED_S):
        acc.violation(PROP, 'python-dynamic-flag', witness(triangulation=tri))
    if bool(cls._UNLIMITED) != (stiff == S.UNLIMITED_S):
        acc.violation(PROP, 'python-unlimited-flag', witness(triangulation=tri))
    if stiff == S.FIXED_S and cls._SIZE != size:
        acc.violation(PROP, 'python-size', witness(triangulation=tri))
    acc.count('python_classes_checked')
    if len(acc.p['samples']) < 3 and nfields >= 3:
        acc.sample({'schema': sch.closure(name).to_prophy(), 'type': name, 'reference': [size, align, KINDNAME[stiff]],
                    'model': tri['model'], 'python': py})


def check_fixed_lengths(acc, sch, w, mod, name, rng, nrand):
    """len(encode()) of a fixed type must be its size for any value; for non-fixed types the length the Python
    runtime derives (its per-block alignment is part of the layout it computes) must be the reference length."""
    size, align, stiff = w.tinfo(name)
    if sch.by_name[name].kind == 'typedef':
        return
    for mode, v in V.value_set(sch, w, name, rng, nrand=nrand, aligned_greedy=False):
        try:
            m = getattr(mod, name)()
            pyrt.build(m, sch, name, v)
            n = len(m.encode('<'))
        except Exception:  # noqa - C01's business
            acc.count('fixed_len_encode_raised')
            continue
        if stiff != S.FIXED_S:
            ref = len(w.encode(name, v, '<')[0])
            acc.count('dynamic_encoding_lengths_measured')
            if n != ref:
                sub = sch.closure(name)
                acc.violation(PROP, 'python-derived-layout-length-differs',
                              {'schema_json': sub.to_json(), 'schema': sub.to_prophy(), 'type': name,
                               'value': C.jsonable(v), 'length': n, 'reference_length': ref})
            continue
        acc.count('fixed_encodings_measured')
        if n != size:
            sub = sch.closure(name)
            acc.violation(PROP, 'fixed-type-encoding-length',
                          {'schema_json': sub.to_json(), 'schema': sub.to_prophy(), 'type': name,
                           'value': C.jsonable(v), 'length': n, 'reference_size': size})


def run_shard(spec):
    if spec.get('cpp'):
        from . import c04cpp
        return c04cpp.run_shard(spec)
    acc = Acc()
    with C.Workdir() as wd:
        for sch, names, tagmap, mod, nodes, rng in C.iter_py_schemas(spec, acc, wd):
            w = W.Wire(sch)
            midx = model_index(nodes)
            allnames = list(names) + [d.name for d in sch.defs if d.kind == 'typedef']
            for n in allnames:
                check_type(acc, sch, w, mod, midx, n, tagmap.get(n, ['typedef']))
                if n in names:
                    check_fixed_lengths(acc, sch, w, mod, n, rng, 1)
            if spec['kind'] != 'replay':
                patched_variant(acc, wd, sch, w, names, tagmap, rng)
    return acc.done()


def patched_variant(acc, wd, sch, w, names, tagmap, rng):
    """The same schema written with a composite or typedef'd type for some integer fields, put right by 'type' rules of a
    patch file: what prophyc computes and what the generated Python classes derive must be the layout of the patched
    schema (a sample of the structs is compared)."""
    import copy
    decoys = [t for t in ('Fx8', 'TU64', 'Fx2', 'TTU64', 'Un8', 'TFx8', 'Dy4', 'En') if t in sch.by_name]
    if not decoys:
        return
    last_decoy = max(i for i, d in enumerate(sch.defs) if d.name in decoys)
    sch2 = copy.deepcopy(sch)
    rules, touched = [], []
    for i, d in enumerate(sch2.defs):
        if d.kind != 'struct' or i <= last_decoy:
            continue
        sizers = set(m.sizer for m in d.members if m.kind == S.EXT)
        for k, m in enumerate(d.members):
            if m.kind == S.PLAIN and m.type in S.INTS and m.name not in sizers and rng.random() < 0.2:
                fixed_only = [t for t in decoys if t != 'Dy4' or k == len(d.members) - 1]
                rules.append('%s type %s %s' % (d.name, m.name, m.type))
                m.type = rng.choice(fixed_only)
                touched.append(d.name)
    if not rules:
        return
    try:
        mod2, nodes2 = pyrt.compile_python(sch2.to_prophy(), wd, patch='\n'.join(rules) + '\n')
    except pyrt.CompileFailed as e:
        # a dynamic decoy in a struct that is used where only fixed types may be: the unpatched text is not valid
        acc.count('patched_variant_not_accepted_before_patching')
        return
    midx2 = model_index(nodes2)
    acc.count('patched_schemas_compiled')
    for n in sorted(set(touched))[:40]:
        if n in names:
            check_type(acc, sch, w, mod2, midx2, n, tagmap.get(n, []) + ['patched'])
            acc.count('patched_types_checked')


def finish(ctx, merged, specs):
    merged['exhaustive_note'] = C.exhaustive_note(ctx)
    need = ['stiff-fixed', 'stiff-dynamic', 'stiff-unlimited', 'cpp-stiff-fixed', 'cpp-stiff-dynamic',
            'cpp-stiff-unlimited']
    missing = [f for f in need if f not in merged['features']]
    if missing and not merged['inconclusive'] and specs and specs[0]['kind'] != 'replay':
        merged['inconclusive'] = 'coverage floor not met: %s' % missing
