"""C++ half of C04 (encoded_byte_size / sizeof constants); filled in with the C++ driver machinery."""


def shards(ctx):
    return []


def replay_spec(ctx, witness):
    raise NotImplementedError


def run_shard(spec):
    raise NotImplementedError
