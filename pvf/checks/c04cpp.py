"""C++ half of C04: encoded_byte_size of the full codec and sizeof of the raw struct, as compiled by g++."""
import os
import subprocess

from .. import schema as S, wire as W, cppdrv
from ..harness import Acc
from . import common as C, cppcommon as CC

PROP = 'C04'


def shards(ctx):
    specs = CC.cpp_specs(ctx, files_quick=10, per_file=150, rand_files_quick=4, rand_per_file=14,
                         rand_files_thorough=60)
    return specs


def replay_spec(ctx, witness):
    return {'cpp': True, 'kind': 'replay', 'schema': witness['schema_json'], 'type': witness['type'], 'seed': 0,
            'extra': witness}


def run_shard(spec):
    acc = Acc()
    with C.Workdir() as wd:
        sch, names, tagmap = CC.build_schema(spec)
        w = W.Wire(sch)
        text = sch.to_prophy()
        try:
            gen, nodes = cppdrv.prophyc_cpp(text, wd, full=True, raw=True)
            lines = ['#include <cstdio>', '#include <vector>', '#include <stdint.h>', '#include "sch.ppf.hpp"', '#include "sch.pp.hpp"', 'int main()', '{']
            for n in names:
                lines.append('    printf("Z %s %%d %%zu\\n", int(prophy::generated::%s::encoded_byte_size), sizeof(::%s));'
                             % (n, n, n))
                if True:
                    # a default-constructed object of a fixed type (optionals absent, first arms) must encode to that size
                    # (pointer overload into a buffer with plenty of room: an encoder that writes too much must show as a
                    # number, not as a heap overrun that may or may not crash an uninstrumented program)
                    lines.append('    { prophy::generated::%s x; std::vector<uint8_t> big(x.get_byte_size() + 4096); '
                                 'printf("E %s %%zu %%zu\\n", x.encode(big.data()), x.get_byte_size()); }' % (n, n))
            lines += ['    return 0;', '}']
            path = os.path.join(wd, 'consts.cpp')
            with open(path, 'w') as f:
                f.write('\n'.join(lines) + '\n')
            binary = os.path.join(wd, 'consts')
            cppdrv.compile_cpp([path, os.path.join(gen, 'sch.ppf.cpp')], binary, [gen], sanitize=False, cxx='g++')
            p = subprocess.run([binary], stdout=subprocess.PIPE, stderr=subprocess.PIPE, timeout=120)
        except cppdrv.BuildFailed as e:
            acc.prereq({'stage': e.stage, 'error': str(e)[-1500:], 'schema': text[:1500]})
            return acc.done()
        acc.count('schema_files_compiled')
        # the paddings prophyc emits into the raw header (parts after dynamic fields, optional flag/value gaps):
        # offsetof / sizeof of every struct, part and union as compiled by g++ vs the reference layout
        try:
            from .c08 import compare_raw_layout
            compare_raw_layout(acc, PROP, wd, sch, w, names, tagmap, gen, compilers=('g++',), prefix='raw:')
        except cppdrv.BuildFailed as e:
            acc.prereq({'stage': 'raw layout ' + e.stage, 'error': str(e)[-800:]})
        got, enc = {}, {}
        for ln in p.stdout.decode().split('\n'):
            a = ln.split()
            if len(a) == 4 and a[0] == 'Z':
                got[a[1]] = (int(a[2]), int(a[3]))
            elif len(a) == 4 and a[0] == 'E':
                enc[a[1]] = (int(a[2]), int(a[3]))
        from .c04 import layout_sig, KINDNAME
        from .. import apimodel
        died_at = None
        if p.returncode != 0:
            # the printer died: in the encode of the first fixed type that has no 'E' line
            missing = [n for n in names if n in got and n not in enc]
            died_at = missing[0] if missing else None
            if died_at:
                sub = sch.closure(died_at)
                acc.violation(PROP, 'cpp-encode-of-a-default-fixed-object-crashes',
                              {'cpp': True, 'schema_json': sub.to_json(), 'schema': sub.to_prophy(), 'type': died_at,
                               'tags': tagmap[died_at], 'rc': p.returncode, 'stderr': p.stderr.decode('utf-8', 'replace')[-600:]})
            names = [n for n in names if n in got]
        for n in names:
            acc.ev()
            size, align, stiff = w.tinfo(n)
            d = sch.by_name[n]
            nfields = len(w.fields(d)) if d.kind == 'struct' else len(d.arms)
            if nfields >= 2:
                acc.sig('cpp' + layout_sig(w, sch, n))
            acc.feature('cpp-stiff-' + KINDNAME[stiff])
            g = got.get(n)
            sub = None

            def witness(**kw):
                sub = sch.closure(n)
                wit = {'cpp': True, 'schema_json': sub.to_json(), 'schema': sub.to_prophy(), 'type': n,
                       'tags': tagmap[n], 'reference': {'size': size, 'alignment': align, 'stiffness': KINDNAME[stiff]},
                       'compiled': {'encoded_byte_size': g and g[0], 'raw_sizeof': g and g[1]}}
                wit.update(kw)
                return wit
            if g is None:
                acc.violation(PROP, 'cpp-constant-missing', witness())
                continue
            exp_ebs = size if stiff == S.FIXED_S else -1
            if g[0] != exp_ebs:
                acc.violation(PROP, 'cpp-encoded_byte_size' + ('-claims-fixed' if stiff != S.FIXED_S else ''), witness())
            if stiff == S.FIXED_S and g[1] != size:
                acc.violation(PROP, 'cpp-raw-sizeof', witness())
            acc.count('cpp_constants_checked')
            if stiff == S.FIXED_S and n in enc:
                if CC.reaches_misaligned_optional(sch, w, n):
                    acc.count('known_finding_types_not_judged')
                elif enc[n] != (size, size):
                    acc.violation(PROP, 'cpp-encoding-of-a-fixed-type-has-another-length',
                                  witness(encode_size=enc[n][0], get_byte_size=enc[n][1]))
                else:
                    acc.count('cpp_fixed_encodings_measured')
            elif stiff != S.FIXED_S and n in enc:
                # the end padding prophyc emits for a dynamic struct shows in the simplest message of the type: a
                # default-constructed object (arrays empty, optionals absent, first arms) has the reference length
                try:
                    ref_len = len(w.encode(n, apimodel.default_of(sch, n), '<')[0])
                except Exception:  # noqa
                    ref_len = None
                if ref_len is None:
                    acc.count('default_objects_without_a_reference_encoding')
                elif CC.reaches_misaligned_optional(sch, w, n):
                    acc.count('known_finding_types_not_judged')
                elif enc[n] != (ref_len, ref_len):
                    acc.violation(PROP, 'cpp-default-object-of-a-non-fixed-type-has-another-length',
                                  witness(encode_size=enc[n][0], get_byte_size=enc[n][1], reference_length=ref_len))
                else:
                    acc.count('cpp_non_fixed_default_encodings_measured')
    return acc.done()
