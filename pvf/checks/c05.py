"""C05 - C++ full codec: get_byte_size equals bytes written; encode stays in bounds (DESIGN 3/C05)."""
from .. import schema as S, values as V, cppdrv
from ..harness import Acc
from . import common as C, cppcommon as CC

PROP = 'C05'
RULE = ("for every struct/union of generated schemas compiled with the C++ full codec under ASan+UBSan: objects obtained "
        "by decoding canonical bytes of default/max/odd/random values, then optionally over-filling every limited "
        "array beyond its limit or clearing every dynamic array and optional, must satisfy get_byte_size() == return of "
        "encode<E>(void*) into an exact-size heap block == size of the vectors returned by encode<little|big|native>() "
        "(== encoded_byte_size for fixed types, == reference length for in-limit values) with no AddressSanitizer "
        "report; distinct by (span-layout signature, mutation), non-trivial as in C01")
ASSUMPTIONS = [
    "the pointer API is only run into a zeroed heap block of exactly get_byte_size() bytes (red zone right behind it)",
    "values reach the C++ object by decoding canonical reference bytes (C03 owns decode acceptance)",
]
TIMEOUT = {'quick': 1500, 'thorough': 10800}
WORKERS = 10
OPS = ((0, 'as-decoded'), (1, 'limited-overfilled'), (2, 'cleared'))


def shards(ctx):
    return CC.cpp_specs(ctx)


def replay_spec(ctx, witness):
    return {'cpp': True, 'kind': 'replay', 'schema': witness['schema_json'], 'type': witness['type'], 'seed': 0,
            'extra': witness}


def run_shard(spec):
    acc = Acc()
    with C.Workdir() as wd:
        env = CC.open_full(spec, acc, wd)
        if env is None:
            return acc.done()
        sch, names, tagmap, w, rng = env['sch'], env['names'], env['tagmap'], env['wire'], env['rng']
        cases = []
        info = {}
        for ti, n in enumerate(names):
            if spec['kind'] == 'replay':
                ex = spec['extra']
                vals = [(ex.get('mode'), C.unjson(ex['value']))]
            else:
                vals = V.value_set(sch, w, n, rng, nrand=2, aligned_greedy=True)
            for mode, v in vals:
                for e, sel in (('<', 1), ('>', 2), ('<', 0)):
                    exp, spans = w.encode(n, v, e)
                    for op, opname in OPS:
                        if spec['kind'] == 'replay' and (op != ex.get('op', op) or sel != ex.get('selector', sel)):
                            continue
                        if op and sel == 0:
                            continue
                        cid = 'c%d' % len(cases)
                        cases.append((cid, ti, sel, op, exp))
                        info[cid] = (n, mode, v, e, sel, op, opname, exp, spans)
        res, reports = cppdrv.run_cases(env['binary'], cases)
        for cid, (n, mode, v, e, sel, op, opname, data, spans) in info.items():
            acc.ev()
            size, align, stiff = w.tinfo(n)
            if C.nontrivial(spans, stiff):
                acc.sig(C.span_sig(spans) + opname)
            acc.feature(opname)

            def witness(**kw):
                sub = sch.closure(n)
                wit = {'schema_json': sub.to_json(), 'schema': sub.to_prophy(), 'type': n, 'tags': tagmap[n],
                       'mode': mode, 'value': C.jsonable(v), 'endian': e, 'selector': sel, 'op': op, 'mutation': opname,
                       'decoded_from': C.hexs(data)}
                wit.update(kw)
                return wit
            r = res.get(cid)
            if r is None:
                acc.count('cases_not_executed')
                continue
            if r.get('timeout'):
                acc.p['inconclusive'] = 'driver watchdog fired'
                continue
            known = CC.reaches_misaligned_optional(sch, w, n)
            if 'crash' in r:
                mech, frames = CC.crash_mechanism(r)
                if known:
                    acc.violation(PROP, CC.OPT_ALIGN_MECH, witness(frames=frames))
                else:
                    acc.violation(PROP, 'sanitizer:' + mech, witness(report=r['crash'][:3000], frames=frames))
                continue
            if not r.get('ok'):
                acc.count('decode_rejected_not_judged_here')
                continue
            acc.count('objects_measured')
            sizes = {'get_byte_size': r.get('size'), 'encode_ptr_return': r.get('ptr_written'),
                     'encode_little_vector': len(r.get('L', b'')), 'encode_big_vector': len(r.get('B', b'')),
                     'encode_native_vector': len(r.get('N', b''))}
            bad = None
            if len(set(sizes.values())) != 1:
                bad = 'sizes-disagree'
            elif stiff == S.FIXED_S and (r.get('ebs') != size or r['size'] != size):
                bad = 'fixed-type-size-differs-from-encoded_byte_size'
            elif stiff != S.FIXED_S and r.get('ebs') != -1:
                bad = 'non-fixed-type-has-encoded_byte_size'
            elif op == 0 and r['size'] != len(data):
                bad = 'get_byte_size-differs-from-wire-length'
            elif op == 1 and r['size'] != len(data):
                bad = 'overfilled-limited-array-changes-size'
            if bad:
                if known:
                    acc.violation(PROP, CC.OPT_ALIGN_MECH, witness(sizes=sizes))
                else:
                    acc.violation(PROP, bad, witness(sizes=sizes, encoded_byte_size=r.get('ebs'),
                                                     reference_size=size, wire_length=len(data)))
                continue
            acc.count('bytes_written_in_bounds', r['size'])
            if len(acc.p['samples']) < 3 and C.nontrivial(spans, stiff) and op:
                acc.sample({'schema': sch.closure(n).to_prophy(), 'type': n, 'value': C.jsonable(v),
                            'mutation': opname, 'sizes': sizes})
        for rep in reports:
            if rep.get('timeout'):
                acc.p['inconclusive'] = 'driver watchdog fired'
            else:
                acc.violation(PROP, 'sanitizer-at-exit:' + (cppdrv.san_class(rep.get('stderr', '')) or 'rc=%s' % rep.get('rc')),
                              {'schema': sch.to_prophy()[:3000], 'report': rep.get('stderr', '')[:3000]})
    return acc.done()


def finish(ctx, merged, specs):
    if specs and specs[0]['kind'] == 'replay':
        return
    missing = [f for f in ('as-decoded', 'limited-overfilled', 'cleared') if f not in merged['features']]
    if not merged['counters'].get('objects_measured'):
        missing.append('objects_measured')
    if missing and not merged['inconclusive']:
        merged['inconclusive'] = 'coverage floor not met: %s' % missing
