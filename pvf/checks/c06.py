"""C06 - Python decode is total: any bytes decode or raise ProphyError, nothing else (DESIGN 3/C06)."""
import sys
import tracemalloc

from .. import schema as S, wire as W, values as V, pyrt, corrupt
from ..harness import Acc
from . import common as C

PROP = 'C06'
RULE = ("for every struct/union of the generated schemas and a few values each: every prefix of the canonical encoding, "
        "extensions, every control word (counter/flag/discriminator/enum/sizer) set to boundary values, non-zero padding, "
        "single and double bit flips, splices, random bytes and the empty input, in both byte orders, are decoded into a "
        "fresh message under monitors: exception type must be ProphyError, PY_START events (sys.monitoring) and "
        "tracemalloc peak must stay within a budget linear in input+static size, and whenever decode returns the "
        "message must be readable, encode, and decode(encode(m)) must be a fixpoint (same value, same bytes). "
        "distinct = distinct (type layout, corruption family, outcome class)")
ASSUMPTIONS = [
    "'promptly' and 'no disproportionate memory' are decided on logical counters (function-entry events, traced "
    "allocation peak), never on wall-clock",
    "budgets: PY_START <= 400 + 60*(len(data)+static_size+fields); tracemalloc peak <= 64KiB + 1024*(len(data)+static_size)",
    "an accepted input must yield a value inside the schema's value space (array limits, enumerators, arms); whether "
    "the strict reference decoder would accept the same input is recorded as an observation only",
]
TOOL = 3


REUSED = {}


class StepBudget(BaseException):
    pass


class Monitor(object):
    def __init__(self):
        self.count = 0
        self.hard = 10 ** 9
        mon = sys.monitoring
        try:
            mon.use_tool_id(TOOL, 'pvf-c06')
        except ValueError:
            pass
        mon.register_callback(TOOL, mon.events.PY_START, self._cb)
        mon.set_events(TOOL, mon.events.PY_START)

    def _cb(self, code, off):
        self.count += 1
        if self.count > self.hard:
            self.hard = 10 ** 12
            raise StepBudget()

    def close(self):
        sys.monitoring.set_events(TOOL, 0)
        sys.monitoring.free_tool_id(TOOL)


def static_cost(w, sch, tname, _memo={}):
    """(static size, number of wire fields) reachable from the type, counting fixed array slots."""
    r = sch.resolve(tname)
    if isinstance(r, str):
        return (w.tinfo(tname)[0], 1)
    if r.kind == 'enum':
        return (4, 1)
    if r.kind == 'union':
        cs = [static_cost(w, sch, a[1]) for a in r.arms]
        return (4 + max(c[0] for c in cs), 1 + max(c[1] for c in cs))
    size = fields = 0
    for m in r.members:
        es, ef = static_cost(w, sch, m.type) if m.type != 'byte' else (1, 1)
        mult = m.size if m.kind in (S.FIXED, S.LIMITED) else 1
        size += 8 + es * mult
        fields += 1 + ef * mult
    return (size, fields)


def outcome_class(e):
    if e is None:
        return 'accepted'
    return type(e).__name__


def decode_monitored(cls, data, endian, mon, budget_steps):
    mon.count = 0
    mon.hard = budget_steps * 50 + 100000
    tracemalloc.reset_peak()
    base = tracemalloc.get_traced_memory()[0]
    m = cls()
    err = None
    ret = None
    try:
        ret = m.decode(data, endian)
    except StepBudget as e:
        err = e
    except Exception as e:  # noqa
        err = e
    steps = mon.count
    mon.hard = 10 ** 12       # the budget belongs to the decode call, not to the checker's own code that follows
    peak = tracemalloc.get_traced_memory()[1] - base
    return m, ret, err, steps, peak


def check_input(acc, sch, w, mod, mon, tname, endian, fam, desc, data, cost, wit_base):
    import prophy
    cls = getattr(mod, tname)
    ssize, nfields = cost
    budget_steps = 400 + 60 * (len(data) + ssize + nfields)
    budget_mem = 64 * 1024 + 1024 * (len(data) + ssize)
    m, ret, err, steps, peak = decode_monitored(cls, data, endian, mon, budget_steps)
    acc.ev()
    acc.count('family:' + fam.split(':')[0])
    acc.maxi('max_steps_over_budget_permille', int(1000.0 * steps / budget_steps))
    acc.maxi('max_peak_over_budget_permille', int(1000.0 * peak / budget_mem))
    acc.maxi('max_steps', steps)
    acc.maxi('max_peak_bytes', peak)

    def witness(**kw):
        wit = dict(wit_base)
        wit.update({'endian': endian, 'family': fam, 'mutation': desc, 'input': C.hexs(data, 600)})
        wit.update(kw)
        return wit

    # the same input into a long-lived message of the type (whatever earlier inputs, accepted or refused, left in it):
    # no other exception type either, and when both decodes return the used message has to encode as well
    key = (id(mod), tname)
    used = REUSED.get(key)
    if used is None:
        used = REUSED[key] = cls()
    mon.count = 0
    mon.hard = budget_steps * 50 + 100000
    try:
        used.decode(data, endian)
        uerr = None
    except StepBudget:
        uerr = None
        REUSED.pop(key, None)
    except Exception as e:  # noqa
        uerr = e
    mon.count = 0
    mon.hard = 10 ** 12
    if uerr is not None and not isinstance(uerr, prophy.ProphyError):
        acc.violation(PROP, 'decode-into-a-used-message-raises:%s' % type(uerr).__name__,
                      witness(error='%s: %s' % (type(uerr).__name__, uerr)))
        REUSED.pop(key, None)
        return
    if uerr is None and err is None:
        acc.count('decodes_into_a_used_message_returned')
        try:
            uenc = used.encode(endian)
            same = uenc == m.encode(endian)
            acc.count('used_message_encodes_like_the_fresh_one' if same else 'used_message_encodes_differently(observation)')
        except Exception as e:  # noqa
            try:
                m.encode(endian)
                fresh_ok = True
            except Exception:  # noqa
                fresh_ok = False
            if fresh_ok:
                acc.violation(PROP, 'used-message-cannot-be-encoded-after-a-decode-that-returned:%s' % type(e).__name__,
                              witness(error='%s: %s' % (type(e).__name__, e)))
                REUSED.pop(key, None)
                return
    if isinstance(err, StepBudget) or steps > budget_steps:
        acc.violation(PROP, 'step-budget-exceeded', witness(steps=steps, budget=budget_steps))
        return
    if peak > budget_mem:
        acc.violation(PROP, 'memory-budget-exceeded', witness(peak=peak, budget=budget_mem))
        return
    if err is not None:
        if not isinstance(err, prophy.ProphyError):
            acc.violation(PROP, 'decode-raises:%s' % type(err).__name__,
                          witness(error='%s: %s' % (type(err).__name__, err)))
        else:
            acc.count('rejected_with_ProphyError')
        acc.sig((tname, fam.split(':')[0], 'rejected'))
        return
    acc.count('accepted')
    acc.sig((tname, fam.split(':')[0], 'accepted'))
    # accepted: message must be a readable value, encode, and be a fixpoint
    try:
        val = pyrt.read(m, sch, tname, [])
        str(m)
    except Exception as e:  # noqa
        acc.violation(PROP, 'accepted-message-unreadable:%s' % type(e).__name__,
                      witness(error='%s: %s' % (type(e).__name__, e)))
        return
    try:
        e1 = m.encode(endian)
    except Exception as e:  # noqa
        acc.violation(PROP, 'accepted-message-encode-raises:%s' % type(e).__name__,
                      witness(error='%s: %s' % (type(e).__name__, e), value=C.jsonable(val)))
        return
    if V.greedy_path(sch, tname):
        # documented exception (see C02): a greedy tail that does not end on the message's alignment boundary cannot
        # be told from its trailing padding. The fixpoint is only demanded when the decoded value's tail ends aligned.
        try:
            ref_e1, _ = w.encode(tname, val, endian)
            if w.last_greedy_end != len(ref_e1):
                acc.count('fixpoint_not_demanded_unaligned_greedy_tail')
                return
        except Exception:  # noqa - value outside the reference domain: fall through to the verdict
            pass
    try:
        m2 = cls()
        n2 = m2.decode(e1, endian)
        val2 = pyrt.read(m2, sch, tname, [])
        e2 = m2.encode(endian)
    except Exception as e:  # noqa
        acc.violation(PROP, 'fixpoint-raises:%s' % type(e).__name__,
                      witness(error='%s: %s' % (type(e).__name__, e), reencoded=C.hexs(e1)))
        return
    if n2 != len(e1) or not _same(val2, val) or e2 != e1:
        acc.violation(PROP, 'fixpoint-differs', witness(reencoded=C.hexs(e1), again=C.hexs(e2), consumed=n2,
                                                        value=C.jsonable(val), value2=C.jsonable(val2)))
        return
    acc.count('fixpoints_checked')
    # the decoded value must lie in the schema's value space (limits, enumerators, arms)
    dom = w.domain_errors(tname, val)
    if dom:
        acc.violation(PROP, 'accepted-value-out-of-domain:' + dom[0].split(': ')[-1].split(' ')[-3],
                      witness(domain_errors=dom[:3], value=C.jsonable(val)))
        return
    # observation only: does the (strict) reference decoder accept the same input?
    try:
        w.decode(tname, data, endian, 'python')
        acc.count('reference_agrees_accept')
    except W.Reject as r:
        acc.count('accepted_where_reference_rejects:' + str(r).split(':')[0].replace(' ', '-')[:24])


def _same(a, b):
    if isinstance(a, float) and isinstance(b, float):
        return a == b or (a != a and b != b)
    if isinstance(a, dict):
        return isinstance(b, dict) and a.keys() == b.keys() and all(_same(a[k], b[k]) for k in a)
    if isinstance(a, (list, tuple)):
        return isinstance(b, (list, tuple)) and len(a) == len(b) and all(_same(x, y) for x, y in zip(a, b))
    return a == b


def shards(ctx):
    return C.py_specs(ctx, rand_quick=48, rand_thorough=800, per_shard_seq=ctx.pick(150, 400), tails=True,
                      nrand_quick=1, nrand_thorough=2, wrap_every=8)


def replay_spec(ctx, witness):
    return C.replay_spec_generic(ctx, witness)


def check_guard_boundary(acc, wd, mon):
    """Inputs whose element counter sits at the decoder's array guard: 65535 and 65536 real elements are read back
    (and then have to encode again, fixpoint), 65537 are refused with ProphyError; truncations of the big inputs too."""
    from .. import pyrt
    M = S.Member
    sch = S.Schema([S.Struct('GB1', [M('x', 'u8', S.DYNAMIC)]),
                    S.Struct('GB2', [M('n', 'u32'), M('a', 'u16', S.EXT, sizer='n'), M('b', 'byte', S.EXT, sizer='n'),
                                     M('t', 'u8')]),
                    S.Struct('GBE', [M('a', 'u8'), M('b', 'u8')]),
                    S.Struct('GB3', [M('n', 'i64'), M('e', 'GBE', S.EXT, sizer='n')]),
                    S.Struct('GB4', [M('b', 'byte', S.DYNAMIC), M('t', 'u16')]),
                    S.Struct('GB6', [M('n', 'u32'), M('ids', 'u16', S.EXT, sizer='n'), M('items', 'GBE', S.EXT, sizer='n')]),
                    S.Struct('GB5', [M('k', 'u8'), M('v', 'u64', S.LIMITED, 70000)])])
    try:
        mod, nodes = pyrt.compile_python(sch.to_prophy(), wd)
    except pyrt.CompileFailed as e:
        acc.prereq({'stage': e.stage, 'error': str(e)[:300]})
        return
    w = W.Wire(sch)
    # histories of valid inputs into the long-lived message of the type: arrays of different kinds sharing a sizer
    # grow, shrink to nothing and grow again
    for tname, mk in (('GB2', lambda k: {'a': [7] * k, 'b': b'\x33' * k, 't': k}),
                      ('GB6', lambda k: {'ids': [9] * k, 'items': [{'a': 1, 'b': 2}] * k}),
                      ('GB1', lambda k: {'x': [5] * k})):
        for e in '<>':
            for k in (3, 0, 2, 0, 0, 1):
                data, spans = w.encode(tname, mk(k), e)
                acc.count('history_inputs')
                check_input(acc, sch, w, mod, mon, tname, e, 'history', 'count-%d' % k, data, static_cost(w, sch, tname),
                            {'schema_json': sch.to_json(), 'schema': sch.to_prophy(), 'type': tname,
                             'value': 'arrays of 3, 0, 2, 0, 0, 1 elements in turn into one message'})
    for n in (65535, 65536, 65537):
        vals = {'GB1': {'x': [7] * n}, 'GB2': {'a': [0x1234] * n, 'b': b'\x5a' * n, 't': 9},
                'GB3': {'e': [{'a': 1, 'b': 2}] * n}, 'GB4': {'b': b'\xa5' * n, 't': 3}, 'GB5': {'k': 1, 'v': [5] * n}}
        for tname, v in sorted(vals.items()):
            for e in '<>':
                data, spans = w.encode(tname, v, e)
                base = {'schema_json': sch.to_json(), 'schema': sch.to_prophy(), 'type': tname,
                        'value': 'every array of %d elements' % n}
                acc.count('guard_boundary_inputs')
                check_input(acc, sch, w, mod, mon, tname, e, 'guard-boundary', 'count-%d' % n, data,
                            static_cost(w, sch, tname), base)
                if n == 65536:
                    for cut in (len(data) - 1, len(data) // 2):
                        check_input(acc, sch, w, mod, mon, tname, e, 'guard-boundary', 'count-%d cut at %d' % (n, cut),
                                    data[:cut], static_cost(w, sch, tname), base)


def run_shard(spec):
    acc = Acc()
    tracemalloc.start()
    mon = Monitor()
    quick = spec.get('nrand', 1) <= 1
    try:
        with C.Workdir() as wd:
            if (spec.get('seed', 1) % 1000 == 0 and spec['kind'] != 'replay') or \
                    (spec['kind'] == 'replay' and spec['extra'].get('family') in ('guard-boundary', 'history')):
                check_guard_boundary(acc, wd, mon)
                if spec['kind'] == 'replay':
                    return acc.done()
            for sch, names, tagmap, mod, nodes, rng in C.iter_py_schemas(spec, acc, wd):
                w = W.Wire(sch)
                if spec['kind'] == 'seq':
                    # every sequence struct is compiled; a deterministic sample of them is corrupted (each type costs
                    # ~150 decodes per value and byte order): 1/4 in the quick tier, 1/24 of the complete
                    # length-3 enumeration (with wrappers) in the thorough tier
                    k = 4 if quick else 24
                    names = [n for i, n in enumerate(names) if i % k == spec['seed'] % k]
                for n in names:
                    cost = static_cost(w, sch, n)
                    sub = None
                    if spec['kind'] == 'replay':
                        ex = spec['extra']
                        base = {'schema_json': ex['schema_json'], 'schema': ex['schema'], 'type': n}
                        data = bytes.fromhex(ex['input'].rstrip('.'))
                        check_input(acc, sch, w, mod, mon, n, ex['endian'], ex['family'], ex['mutation'], data, cost, base)
                        continue
                    vals = V.value_set(sch, w, n, rng, nrand=spec['nrand'], aligned_greedy=True)
                    vals = [x for x in vals if x[0] in ('max', 'odd', 'rand')][:(2 if quick else 4)]
                    prev = None
                    for mode, v in vals:
                        for e in ('<', '>') if not quick else (rng.choice('<>'),):
                            data, spans = w.encode(n, v, e)
                            if sub is None:
                                sub = sch.closure(n)
                                base = {'schema_json': sub.to_json(), 'schema': sub.to_prophy(), 'type': n,
                                        'tags': tagmap[n]}
                            b2 = dict(base)
                            b2['value'] = C.jsonable(v)
                            check_input(acc, sch, w, mod, mon, n, e, 'canonical', '', data, cost, b2)
                            for fam, desc, mut in corrupt.mutations(data, spans, e, rng, other=prev,
                                                                    flips=12 if quick else 32,
                                                                    doubles=4 if quick else 12):
                                check_input(acc, sch, w, mod, mon, n, e, fam, desc, mut, cost, b2)
                            prev = data
                    if len(acc.p['samples']) < 2 and vals:
                        acc.sample({'schema': base['schema'], 'type': n, 'value': C.jsonable(vals[0][1]),
                                    'canonical': C.hexs(data), 'families': 'prefix/extend/control/bitflip/splice/random'})
    finally:
        mon.close()
        tracemalloc.stop()
    return acc.done()


def finish(ctx, merged, specs):
    need = ['family:prefix', 'family:control', 'family:bitflip', 'family:extend', 'family:random', 'accepted',
            'rejected_with_ProphyError', 'fixpoints_checked', 'guard_boundary_inputs']
    missing = [f for f in need if not merged['counters'].get(f)]
    if missing and not merged['inconclusive'] and specs and specs[0]['kind'] != 'replay':
        merged['inconclusive'] = 'coverage floor not met: %s' % missing
