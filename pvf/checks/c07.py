"""C07 - C++ full decode is memory-safe and exact on arbitrary bytes (DESIGN 3/C07)."""
from .. import schema as S, wire as W, values as V, cppdrv, corrupt
from ..harness import Acc
from . import common as C, cppcommon as CC

PROP = 'C07'
RULE = ("for every struct/union of generated schemas compiled with the C++ full codec under ASan+UBSan+LSan: every prefix "
        "of canonical encodings, extensions, control words (counters/flags/discriminators/enums/sizers) set to boundary "
        "values, garbage padding, bit flips, splices, random bytes and the empty input, in both byte orders, are copied "
        "into an exact-size heap block and decoded, into fresh objects and into one long-lived object per type that still "
        "holds whatever earlier (accepted or refused) decodes left in it; through decode(ptr, size) and, for canonical, "
        "extended and truncated inputs, also through the std::vector overload. "
        "Monitors: any sanitizer report; a replaced operator new that refuses and logs requests above "
        "(64+2*max sizeof of reachable composite types)*n+4096 bytes during decode (2x: geometric growth of a vector inside the long-lived object); decode==true requires get_byte_size()==n==len(encode<E>()), agreement of the input with its own "
        "re-encoding on every non-padding byte, and acceptance by the lenient reference decoder. distinct = "
        "(type layout, corruption family, outcome)")
ASSUMPTIONS = [
    "a clean sanitizer run means 'no report on these executions', not memory safety (red zones miss non-adjacent overflows)",
    "-fno-sanitize=enum: converting an out-of-range integer to an enum is unspecified, not undefined, in C++11",
    "C++ rejecting more than the reference is not a violation (the property constrains acceptance only)",
    "the allocation budget counts requests made during decode only",
]
TIMEOUT = {'quick': 1500, 'thorough': 14400}
WORKERS = 10


def shards(ctx):
    return CC.cpp_specs(ctx, files_quick=6, per_file=60, rand_files_quick=2, rand_per_file=8)


def replay_spec(ctx, witness):
    return {'cpp': True, 'kind': 'replay', 'schema': witness['schema_json'], 'type': witness['type'], 'seed': 0,
            'extra': witness}


def judge_accept(acc, sch, w, n, e, sel, data, r, witness):
    """decode returned true: exactness monitors."""
    nbytes = len(data)
    enc = {0: r.get('N'), 1: r.get('L'), 2: r.get('B')}[sel]
    if r.get('size') != nbytes or enc is None or len(enc) != nbytes:
        acc.violation(PROP, 'accepted-input-reencodes-to-different-length',
                      witness(get_byte_size=r.get('size'), reencoded_len=None if enc is None else len(enc)))
        return
    acc.count('accepted_length_checked')
    # role map of the re-encoding through the reference
    try:
        val = w.decode(n, enc, e, 'cpp')
        exp2, spans2 = w.encode(n, val, e)
    except (W.Reject, Exception) as ex:  # noqa
        acc.count('exactness_role_map_unavailable')
        val = None
        exp2 = None
    gp = V.greedy_path(sch, n)
    gprefix = (n + '.' + '.'.join(gp[0])) if gp else None
    if exp2 is not None and exp2 == enc:
        for o, wd, k, p in spans2:
            if gprefix and p.startswith(gprefix):
                # greedy tail: trailing padding cannot be told from elements (documented), the reference's
                # role map of the tail need not be the decoder's; exactness is decided on the bytes before it
                break
            if k == 'flag':
                # an optional's flag is a boolean: any non-zero word means 'present' and re-encodes as 1
                same = any(data[o:o + wd]) == any(enc[o:o + wd])
            else:
                same = k == 'pad' or data[o:o + wd] == enc[o:o + wd]
            if not same:
                acc.violation(PROP, 'accepted-input-disagrees-with-reencoding:%s' % k,
                              witness(reencoded=C.hexs(enc), offset=o, path=p))
                return
        acc.count('accepted_exactness_checked')
    try:
        w.decode(n, data, e, 'cpp')
        acc.count('reference_accepts_too')
    except W.Reject as rej:
        acc.violation(PROP, 'accepts-what-reference-rejects:' + str(rej).split(':')[0].replace(' ', '-')[:30],
                      witness(reference=str(rej), reencoded=C.hexs(enc)))


def run_shard(spec):
    acc = Acc()
    with C.Workdir() as wd:
        env = CC.open_full(spec, acc, wd)
        if env is None:
            return acc.done()
        sch, names, tagmap, w, rng = env['sch'], env['names'], env['tagmap'], env['wire'], env['rng']
        cases = []
        info = {}
        quick = spec.get('quick', True)

        factors = CC.alloc_factors(env)

        def add(ti, n, sel, e, op, fam, desc, data, v):
            cid = 'c%d' % len(cases)
            cases.append((cid, ti, sel, op, data, factors[n]))
            info[cid] = (n, e, sel, op, fam, desc, data, v)

        for ti, n in enumerate(names):
            if spec['kind'] == 'replay':
                ex = spec['extra']
                data = bytes.fromhex(ex['input'].rstrip('.'))
                add(ti, n, ex['selector'], ex['endian'], ex.get('op', 0), ex['family'], ex['mutation'], data, None)
                continue
            vals = V.value_set(sch, w, n, rng, nrand=1, aligned_greedy=True)
            vals = [x for x in vals if x[0] in ('max', 'odd', 'rand')][:2]
            prev = None
            for mode, v in vals:
                e, sel = rng.choice((('<', 1), ('>', 2), ('<', 0)))   # 0: the native selector (host is little-endian)
                data, spans = w.encode(n, v, e)
                add(ti, n, sel, e, 0, 'canonical', '', data, v)
                add(ti, n, sel, e, 4, 'canonical+reused-object', '', data, v)
                add(ti, n, sel, e, 16, 'canonical+vector-entry', '', data, v)
                for fam, desc, mut in corrupt.mutations(data, spans, e, rng, other=prev, flips=10, doubles=3,
                                                        max_prefix=160):
                    add(ti, n, sel, e, 0, fam, desc, mut, v)
                    if fam in ('extend', 'padding-garbage') or (fam == 'prefix' and len(mut) % 7 == 0):
                        add(ti, n, sel, e, 16, fam + '+vector-entry', desc, mut, v)
                    if fam.startswith('control') or fam in ('splice', 'random'):
                        add(ti, n, sel, e, 4, fam + '+reused-object', desc, mut, v)
                add(ti, n, sel, e, 4, 'canonical+reused-object', 'after-corruptions', data, v)
                prev = data
        res, reports = cppdrv.run_cases(env['binary'], cases)
        for cid, (n, e, sel, op, fam, desc, data, v) in info.items():
            acc.ev()
            fam0 = fam.split(':')[0]
            acc.count('family:' + fam0)

            def witness(**kw):
                sub = sch.closure(n)
                wit = {'schema_json': sub.to_json(), 'schema': sub.to_prophy(), 'type': n, 'tags': tagmap[n],
                       'endian': e, 'selector': sel, 'op': op, 'family': fam, 'mutation': desc,
                       'input': C.hexs(data, 600), 'input_len': len(data), 'base_value': C.jsonable(v)}
                wit.update(kw)
                return wit
            r = res.get(cid)
            if r is None:
                acc.count('cases_not_executed')
                continue
            if r.get('timeout'):
                acc.p['inconclusive'] = 'driver watchdog fired'
                continue
            known = CC.reaches_misaligned_optional(sch, w, n)
            if 'crash' in r:
                mech, frames = CC.crash_mechanism(r)
                if known:
                    acc.violation(PROP, CC.OPT_ALIGN_MECH, witness(frames=frames))
                else:
                    acc.violation(PROP, 'sanitizer:' + mech, witness(report=r['crash'][:3000], frames=frames))
                acc.sig((n, fam0, 'crash'))
                continue
            acc.count('decodes_completed')
            acc.maxi('max_single_allocation', r.get('alloc_max', 0))
            if len(data):
                acc.maxi('max_allocation_per_input_byte_x100', int(100.0 * r.get('alloc_max', 0) / len(data)))
            if r.get('alloc_refused') or 'bad_alloc' in r:
                acc.violation(PROP, 'allocation-out-of-proportion',
                              witness(requested=r.get('bad_alloc', r.get('alloc_max')), budget=factors[n] * len(data) + 4096,
                                      budget_per_input_byte=factors[n]))
                acc.sig((n, fam0, 'alloc'))
                continue
            if not r.get('ok'):
                acc.count('rejected')
                acc.sig((n, fam0, 'rejected'))
                continue
            acc.count('accepted')
            acc.sig((n, fam0, 'accepted'))
            if op & 4:
                acc.count('accepted_into_reused_object')
            if known:
                acc.count('accepted_on_known_finding_type_not_judged')
                continue
            judge_accept(acc, sch, w, n, e, sel, data, r, witness)
            if len(acc.p['samples']) < 2 and fam0 == 'control':
                acc.sample({'schema': sch.closure(n).to_prophy(), 'type': n, 'family': fam, 'mutation': desc,
                            'input': C.hexs(data), 'decode': True})
        for rep in reports:
            if rep.get('timeout'):
                acc.p['inconclusive'] = 'driver watchdog fired'
            else:
                acc.violation(PROP, 'sanitizer-at-exit:' + (cppdrv.san_class(rep.get('stderr', '')) or 'rc=%s' % rep.get('rc')),
                              {'schema': sch.to_prophy()[:3000], 'report': rep.get('stderr', '')[:3000]})
    return acc.done()


def finish(ctx, merged, specs):
    if specs and specs[0]['kind'] == 'replay':
        return
    need = ['family:prefix', 'family:control', 'family:bitflip', 'family:extend', 'family:random', 'accepted', 'rejected',
            'accepted_exactness_checked']
    missing = [f for f in need if not merged['counters'].get(f)]
    if missing and not merged['inconclusive']:
        merged['inconclusive'] = 'coverage floor not met: %s' % missing
