"""C09 - raw C++ swap converts a whole foreign-endian message to native in place (DESIGN 3/C09)."""
import os

from .. import schema as S, wire as W, values as V, cppdrv
from ..harness import Acc
from . import common as C, cppcommon as CC
from .c08 import build_raw_schema

PROP = 'C09'
RULE = ("for every struct/union of generated schemas (raw back-end, shared sizers allowed) and default/max/odd/random "
        "values: the big-endian (foreign on this host) canonical encoding is placed in an exact-size heap block "
        "(AddressSanitizer red zones on both sides) and, in a second pass, in an arena with 64 sentinel bytes on either "
        "side; prophy::swap from the generated .pp.cpp (built with ASan+UBSan incl. alignment) must turn it into the "
        "little-endian canonical encoding, change nothing outside, and return start + aligned length. For messages with "
        "a greedy tail only the bytes before the outermost unlimited member are compared and the returned address must "
        "be that member's. distinct by span-layout signature, non-trivial as in C01")
ASSUMPTIONS = [
    "host is little-endian: the foreign order is big-endian",
    "reference encoder as in C01 provides both encodings and the offset of the outermost unlimited member",
]
TIMEOUT = {'quick': 1500, 'thorough': 10800}
WORKERS = 10


def shards(ctx):
    specs = CC.cpp_specs(ctx, files_quick=8, per_file=100, rand_files_quick=3, rand_per_file=12)
    for s in specs:
        s['cpp_full'] = False
    return specs


def replay_spec(ctx, witness):
    return {'cpp': True, 'kind': 'replay', 'schema': witness['schema_json'], 'type': witness['type'], 'seed': 0,
            'extra': witness}


def run_shard(spec):
    import random
    acc = Acc()
    with C.Workdir() as wd0:
        sch, names, tagmap = build_raw_schema(spec)
        w = W.Wire(sch)
        rng = random.Random(spec['seed'])
        # the schema as one file, and (canary and wrapped files, which hold the delicate shapes) cut into an included and
        # an including file compiled in one run: same swap, same bytes
        variants = ['one-file'] + (['two-files'] if spec['kind'] == 'seq' and spec.get('wrap') and len(sch.defs) >= 4 else [])
        for variant in variants:
            wd = os.path.join(wd0, variant)
            os.makedirs(wd)
            run_variant(acc, spec, wd, sch, names, tagmap, w, rng, variant)
    return acc.done()


def run_variant(acc, spec, wd, sch, names, tagmap, w, rng, variant, prop=None, prefix=''):
    prop = prop or PROP
    if True:
        text = sch.to_prophy()
        try:
            if variant == 'two-files':
                order = [d.name for d in sch.defs]
                cut = len(order) // 2
                gen, nodes = cppdrv.prophyc_cpp('#include "inc.prophy"\n' + sch.to_prophy(only=set(order[cut:])), wd,
                                                full=False, raw=True, files={'inc.prophy': sch.to_prophy(only=set(order[:cut]))})
                sources = [os.path.join(gen, 'sch.pp.cpp'), os.path.join(gen, 'inc.pp.cpp')]
                acc.count('two_file_schemas_compiled')
            else:
                gen, nodes = cppdrv.prophyc_cpp(text, wd, full=False, raw=True)
                sources = [os.path.join(gen, 'sch.pp.cpp')]
            path = os.path.join(wd, 'swp.cpp')
            with open(path, 'w') as f:
                f.write(cppdrv.raw_swap_driver_source(names))
            binary = os.path.join(wd, 'swp')
            cppdrv.compile_cpp([path] + sources, binary, [gen])
        except cppdrv.BuildFailed as e:
            acc.prereq({'stage': e.stage, 'error': variant + ': ' + str(e)[-1500:], 'schema': text[:1500]})
            return
        acc.count('schema_files_compiled')
        acc.count('types_compiled', len(names))
        cases = []
        info = {}
        for ti, n in enumerate(names):
            if spec['kind'] == 'replay':
                vals = [(spec['extra'].get('mode'), C.unjson(spec['extra']['value']))]
            else:
                vals = V.value_set(sch, w, n, rng, nrand=2, aligned_greedy=True)
            d = sch.by_name[n]
            if CC.reaches_decreasing_part_alignment(sch, w, n):
                vals = [x for x in vals if x[0] in ('odd', 'max', None)][:2]   # known finding: two observations per type
            for mode, v in vals:
                be, spans = w.encode(n, v, '>')
                le, _ = w.encode(n, v, '<')
                tail_off = None
                if d.kind == 'struct' and w.tinfo(n)[2] == S.UNLIMITED_S:
                    tail_off = w.last_top_offsets[d.members[-1].name]
                for op in (0, 1):
                    cid = 'c%d' % len(cases)
                    cases.append((cid, ti, 0, op, be))
                    info[cid] = (n, mode, v, be, le, spans, tail_off, op)
        res, reports = cppdrv.run_cases(binary, cases)
        for cid, (n, mode, v, be, le, spans, tail_off, op) in info.items():
            acc.ev()
            stiff = w.tinfo(n)[2]
            if C.nontrivial(spans, stiff):
                acc.sig(C.span_sig(spans) + str(op))
            acc.feature('greedy-tail' if tail_off is not None else 'whole-message')
            if sch.by_name[n].kind == 'struct' and len(w.layout(n).blocks) > 2:
                acc.feature('three-blocks')

            def witness(**kw):
                sub = sch.closure(n)
                wit = {'schema_json': sub.to_json(), 'schema': sub.to_prophy(), 'type': n, 'tags': tagmap[n],
                       'mode': mode, 'value': C.jsonable(v), 'foreign': C.hexs(be), 'expected_native': C.hexs(le),
                       'pass': 'exact-heap-block' if op == 0 else 'sentinel-arena', 'variant': variant}
                wit.update(kw)
                return wit
            r = res.get(cid)
            if r is None:
                acc.count('cases_not_executed')
                continue
            if r.get('timeout'):
                acc.p['inconclusive'] = 'driver watchdog fired'
                continue
            if CC.reaches_decreasing_part_alignment(sch, w, n):
                # known finding: any deviation on such a type is attributed to it, nothing else is judged
                upto = len(le) if tail_off is None else tail_off
                if 'crash' in r or r.get('O', b'')[:upto] != le[:upto] or (tail_off is None and r.get('ret') != len(le)):
                    acc.violation(prop, prefix + CC.PART_ALIGN_MECH, witness(returned_offset=r.get('ret')))
                else:
                    acc.count('swaps_completed')
                continue
            if 'crash' in r:
                mech, frames = CC.crash_mechanism(r)
                acc.violation(prop, prefix + 'sanitizer:' + mech, witness(report=r['crash'][:3000], frames=frames))
                continue
            acc.count('swaps_completed')
            out = r.get('O', b'')
            upto = len(le) if tail_off is None else tail_off
            if out[:upto] != le[:upto]:
                off = C.first_diff(out[:upto], le[:upto])
                acc.violation(prop, prefix + 'swapped-bytes-differ:%s' % C.span_at(spans, off)[0],
                              witness(swapped=C.hexs(out), first_diff=off, compared_prefix=upto))
                continue
            exp_ret = len(le) if tail_off is None else tail_off
            if r.get('ret') != exp_ret:
                mech = 'returned-pointer' + ('-greedy' if tail_off is not None else '')
                if tail_off is not None and r.get('ret') == W.roundup(tail_off, w.tinfo(n)[1]):
                    mech = CC.GREEDY_RET_MECH
                acc.violation(prop, prefix + mech, witness(returned_offset=r.get('ret'), expected_offset=exp_ret))
                continue
            if r.get('guard_changed'):
                acc.violation(prop, prefix + 'bytes-outside-message-changed', witness(changed=r['guard_changed']))
                continue
            acc.count('bytes_compared', upto)
            if len(acc.p['samples']) < 2 and C.nontrivial(spans, stiff) and len(be) < 80:
                acc.sample({'schema': sch.closure(n).to_prophy(), 'type': n, 'value': C.jsonable(v),
                            'foreign': C.hexs(be), 'after_swap': C.hexs(out), 'returned_offset': r.get('ret')})
        for rep in reports:
            if rep.get('timeout'):
                acc.p['inconclusive'] = 'driver watchdog fired'
            else:
                acc.violation(prop, prefix + 'sanitizer-at-exit:' + (cppdrv.san_class(rep.get('stderr', '')) or 'rc=%s' % rep.get('rc')),
                              {'schema': sch.to_prophy()[:3000], 'report': rep.get('stderr', '')[:3000]})


def finish(ctx, merged, specs):
    if specs and specs[0]['kind'] == 'replay':
        return
    need = ['greedy-tail', 'whole-message', 'three-blocks']
    missing = [f for f in need if f not in merged['features']]
    if not merged['counters'].get('swaps_completed'):
        missing.append('swaps_completed')
    if missing and not merged['inconclusive']:
        merged['inconclusive'] = 'coverage floor not met: %s' % missing
