"""C10 - Python message API keeps every reachable message state valid (DESIGN 3/C10)."""
import copy

from .. import schema as S, wire as W, pyrt, apimodel as A
from ..harness import Acc
from . import common as C

PROP = 'C10'
RULE = ("for struct/union types of generated schemas many short histories (5..40 operations) of public API calls with "
        "in-range, boundary, out-of-range and wrongly typed arguments are run in lock-step against a plain reference "
        "model (validate-then-apply, atomic): after EVERY operation the whole message is observed (field reads, "
        "len/iteration, discriminator, str(), encode('<')) and must equal the model state / reference encoding; the "
        "outcome class of every operation (accepted, ProphyError, IndexError, ValueError) must be the model's, and a "
        "rejected operation must leave the observation bit-identical. distinct = (type layout, operation kind, "
        "outcome) triples; non-trivial = history reached >= 3 accepted mutating operations")
ASSUMPTIONS = [
    "reference semantics are the table in DESIGN.md 3/C10; only operations a container kind offers are generated",
    "index arguments are ints and slices; extend/copy arguments of composite arrays are same-class messages",
    "NaN is not generated (compared by bytes only elsewhere); bool is the int it is",
    "the sole allowed encode refusal is ProphyError for unequal lengths of arrays sharing a sizer",
]


def shards(ctx):
    return C.py_specs(ctx, rand_quick=96, rand_thorough=2400, per_shard_seq=ctx.pick(150, 400), nrand_quick=1,
                      nrand_thorough=2, wrap_every=5)


def replay_spec(ctx, witness):
    return C.replay_spec_generic(ctx, witness)


# ---------------------------------------------------------------------------
# argument generators
# ---------------------------------------------------------------------------
WRONG = ['x', None, b'a', [1], 1.5]


def int_args(t, rng):
    w, signed = S.INTS[t]
    bits = 8 * w
    lo, hi = (-(1 << (bits - 1)), (1 << (bits - 1)) - 1) if signed else (0, (1 << bits) - 1)
    r = rng.random()
    if r < 0.55:
        return rng.choice([lo, hi, 0, 1, hi - 1, rng.randint(lo, hi)])
    if r < 0.8:
        return rng.choice([hi + 1, lo - 1, 1 << 64, -(1 << 63) - 1, 1 << 70])
    return rng.choice(WRONG)


def float_args(t, rng):
    r = rng.random()
    if r < 0.6:
        return rng.choice([0.0, 1.5, -2.25, 3, 1e30, -1e30, float('inf')])
    if r < 0.8:
        # too large for r32, fine for r64; 2**1024 is beyond both. Integers are given as powers of two: the codec
        # stores the object it was handed and list.remove compares it exactly, so only ints a double holds exactly
        # behave like the model's float
        return rng.choice([1e40, -1e40, 3.5e38, 1 << 128, -(1 << 128), 1 << 1024, 1 << 127])
    return rng.choice(['x', None, b'a', [1]])


def enum_args(e, rng):
    r = rng.random()
    names = [m[0] for m in e.members]
    vals = [m[1] for m in e.members]
    if r < 0.35:
        return rng.choice(vals)
    if r < 0.6:
        return rng.choice(names)
    if r < 0.8:
        bad = [x for x in (0, 1, 2, 7, 12345678, -1, 1 << 32) if x not in vals]
        return rng.choice(bad + ['nope', names[0] + '_'])
    return rng.choice([None, 1.5, b'a', [1]])


def scalar_arg(sch, t, rng):
    r = sch.resolve(t)
    if isinstance(r, str):
        return int_args(r, rng) if r in S.INTS else float_args(r, rng)
    return enum_args(r, rng)


def bytes_arg(m, rng):
    r = rng.random()
    size = m.size or 4
    if r < 0.6:
        n = rng.choice([0, 1, max(0, size - 1), size])
        return bytes(bytearray(rng.choice([0, 9, 10, 65, 92, 127, 128, 255]) for _ in range(n)))
    if r < 0.8:
        return b'y' * (size + rng.choice([1, 2, 7]))
    return rng.choice(['str', None, 3, [1], bytearray(b'a')])


def index_arg(n, rng):
    r = rng.random()
    if n and r < 0.6:
        return rng.randint(-n, n - 1)
    return rng.choice([n, n + 1, -n - 1, 0, -1, 100])


def slice_arg(n, rng):
    def b():
        return rng.choice([None, 0, 1, n, n + 2, -1, -n, rng.randint(0, max(n, 1))])
    step = rng.choice([None, None, None, 1, 2, -1, 3])
    return (b(), b(), step)


# ---------------------------------------------------------------------------
# operation generator (walks the model state so that paths exist)
# ---------------------------------------------------------------------------

def gen_op(model, rng, depth=0, path=None, t=None, v=None):
    sch = model.sch
    if path is None:
        path, t, v = [], model.tname, model.state
    r = sch.resolve(t)
    if r.kind == 'union':
        cur = [a for a in r.arms if a[2] == v[0]][0]
        x = rng.random()
        if x < 0.3 and A.is_comp(sch, cur[1]) and depth < 5:
            return gen_op(model, rng, depth + 1, path + [('arm', cur[2])], cur[1], v[1])
        if x < 0.6:
            cand = [a[2] for a in r.arms] + [a[0] for a in r.arms] + ['nope', 424242, None, [1]]
            return {'path': path, 'op': 'disc', 'member': None, 'args': [rng.choice(cand)]}
        arm = rng.choice(r.arms)
        if x < 0.7:
            return {'path': path, 'op': 'get', 'member': arm[2], 'args': []}
        if A.is_comp(sch, arm[1]):
            return {'path': path, 'op': 'set', 'member': arm[2], 'args': [rng.choice([True, None, 1])]}
        return {'path': path, 'op': 'set', 'member': arm[2], 'args': [scalar_arg(sch, arm[1], rng)]}
    sizers = set(m.sizer for m in r.members if m.kind == S.EXT)
    members = [m for m in r.members if m.name not in sizers]
    if rng.random() < 0.04:
        # assignment to an array counter (explicit sizer or the generated num_of_<array>) or to a name that is no
        # member: counters stay derived from the arrays, nothing observable changes
        names = sorted(sizers) + ['num_of_' + x.name for x in r.members if x.kind in (S.DYNAMIC, S.LIMITED)]
        names += [rng.choice(r.members).name + rng.choice(['_', 's', '2']), 'itmes']
        return {'path': path, 'op': 'rawattr', 'member': rng.choice(names),
                'args': [rng.choice([0, 1, 7, 255, -1, 1 << 40, None, [1], 'x'])]}
    m = rng.choice(members)
    comp = A.is_comp(sch, m.type)
    cur = v[m.name]
    mk = lambda op, *args: {'path': path, 'op': op, 'member': m.name, 'args': list(args)}  # noqa
    if m.type == 'byte':
        return mk('set', bytes_arg(m, rng))
    if m.kind == S.PLAIN:
        if comp:
            if rng.random() < 0.85 and depth < 5:
                return gen_op(model, rng, depth + 1, path + [('m', m.name)], m.type, cur)
            return mk('set', rng.choice([True, None, 5]))
        return mk('set', scalar_arg(sch, m.type, rng))
    if m.kind == S.OPTIONAL:
        if comp:
            if cur is not None and rng.random() < 0.6 and depth < 5:
                return gen_op(model, rng, depth + 1, path + [('m', m.name)], m.type, cur)
            return mk('set', rng.choice([True, True, None, False, 1, 'x']))
        return mk('set', None if rng.random() < 0.25 else scalar_arg(sch, m.type, rng))
    n = len(cur)
    if comp:
        x = rng.random()
        if n and x < 0.45 and depth < 5:
            i = rng.randrange(n)
            return gen_op(model, rng, depth + 1, path + [('m', m.name), ('i', i)], m.type, cur[i])
        if m.kind == S.FIXED:
            return mk('set', [1])
        if x < 0.7:
            return mk('add', gen_kwargs(sch, m.type, rng))
        if x < 0.8:
            k = rng.choice([0, 1, 2, 3])
            if n and k >= 2 and rng.random() < 0.4:
                # one and the same message object handed over k times
                op = mk('extend_copy', [copy.deepcopy(rng.choice(cur))] * k)
                op['same_object'] = True
                return op
            return mk('extend_copy', [A.default_of(sch, m.type) for _ in range(k)] if not n else
                      [copy.deepcopy(rng.choice(cur)) for _ in range(k)])
        if x < 0.9:
            return mk('delitem', index_arg(n, rng))
        if x < 0.97:
            return mk('delslice', slice_arg(n, rng))
        return mk('set', [])
    # scalar arrays
    x = rng.random()
    if m.kind == S.FIXED:
        if x < 0.5:
            return mk('setitem', index_arg(n, rng), scalar_arg(sch, m.type, rng))
        sl = slice_arg(n, rng)
        ln = len(list(range(n))[slice(*sl)])
        cnt = ln if rng.random() < 0.7 else ln + rng.choice([1, -1, 2])
        return mk('setslice', sl, gen_list(sch, m.type, max(0, cnt), rng))
    if x < 0.18:
        return mk('append', scalar_arg(sch, m.type, rng))
    if x < 0.30:
        return mk('insert', rng.choice([0, 1, n, -1, n + 3]), scalar_arg(sch, m.type, rng))
    if x < 0.48:
        return mk('extend', gen_list(sch, m.type, rng.choice([0, 1, 2, 3, 5]), rng))
    if x < 0.6:
        return mk('setitem', index_arg(n, rng), scalar_arg(sch, m.type, rng))
    if x < 0.78:
        return mk('setslice', slice_arg(n, rng), gen_list(sch, m.type, rng.choice([0, 1, 2, 3]), rng))
    if x < 0.86:
        return mk('delitem', index_arg(n, rng))
    if x < 0.93:
        return mk('delslice', slice_arg(n, rng))
    if x < 0.985 or m.kind != S.EXT:
        return mk('remove', rng.choice(cur) if n and rng.random() < 0.7 else scalar_arg(sch, m.type, rng))
    return mk('extend', [0] * 300)      # more elements than a narrow sizer can count


def gen_list(sch, t, n, rng):
    """List (or generator) of mostly valid elements, sometimes with one bad element in the middle."""
    vals = []
    for _ in range(n):
        v = scalar_arg(sch, t, rng)
        ok, _sv = A.scalar_check(sch, t, v)
        if not ok and rng.random() < 0.8:
            v = A.default_of(sch, t)
        vals.append(v)
    if rng.random() < 0.25:
        return A.Gen(vals)
    return vals


def gen_kwargs(sch, t, rng):
    r = sch.resolve(t)
    if r.kind != 'struct' or rng.random() < 0.3:
        return {}
    sizers = set(m.sizer for m in r.members if m.kind == S.EXT)
    out = {}
    for m in r.members:
        if m.name in sizers or rng.random() < 0.5:
            continue
        if m.type == 'byte':
            out[m.name] = bytes_arg(m, rng)
        elif A.is_comp(sch, m.type):
            if m.kind == S.OPTIONAL and rng.random() < 0.5:
                out[m.name] = True
        elif m.kind in (S.PLAIN, S.OPTIONAL):
            out[m.name] = scalar_arg(sch, m.type, rng)
        elif m.kind == S.FIXED:
            vals = gen_list(sch, m.type, m.size, rng)
            out[m.name] = vals.items if isinstance(vals, A.Gen) else vals
        else:
            vals = gen_list(sch, m.type, rng.choice([0, 1, 2]), rng)
            out[m.name] = vals.items if isinstance(vals, A.Gen) else vals
    return out


# ---------------------------------------------------------------------------
# lock-step execution
# ---------------------------------------------------------------------------

def normalise_unset_bytes(v):
    """'' (str) read from a never-assigned bytes field -> b'' ; returns (value, seen)."""
    seen = [False]

    def go(x):
        if isinstance(x, str) and x == '':
            seen[0] = True
            return b''
        if isinstance(x, dict):
            return {k: go(y) for k, y in x.items()}
        if isinstance(x, list):
            return [go(y) for y in x]
        if isinstance(x, tuple):
            return (x[0], go(x[1]))
        return x
    return go(v), seen[0]


def observe(msg, sch, tname):
    val = pyrt.read(msg, sch, tname)
    text = str(msg)
    try:
        data = msg.encode('<')
        err = None
    except Exception as e:  # noqa
        data, err = None, e
    return val, text, data, err


def op_repr(op):
    def r(x):
        if isinstance(x, A.Gen):
            return {'$generator': [r(i) for i in x.items]}
        if isinstance(x, (bytes, bytearray)):
            return {'$b': bytes(x).hex(), '$type': type(x).__name__}
        if isinstance(x, tuple):
            return [r(i) for i in x]
        if isinstance(x, list):
            return [r(i) for i in x]
        if isinstance(x, dict):
            return {k: r(v) for k, v in x.items()}
        if isinstance(x, float) and (x != x or x in (float('inf'), float('-inf'))):
            return {'$f': repr(x)}
        if isinstance(x, bool) or x is None or isinstance(x, (int, float, str)):
            return x
        return repr(x)
    return {'path': [list(s) for s in op['path']], 'op': op['op'], 'member': op.get('member'), 'args': r(op['args']),
            'kept': bool(op.get('kept')), 'same_object': bool(op.get('same_object'))}


def op_unrepr(d):
    def u(x):
        if isinstance(x, dict):
            if '$generator' in x:
                return A.Gen([u(i) for i in x['$generator']])
            if '$b' in x:
                b = bytes.fromhex(x['$b'])
                return bytearray(b) if x.get('$type') == 'bytearray' else b
            if '$f' in x:
                return float(x['$f'])
            return {k: u(v) for k, v in x.items()}
        if isinstance(x, list):
            return [u(i) for i in x]
        return x
    args = u(d['args'])
    if d['op'] in ('setslice',):
        args[0] = tuple(args[0])
    if d['op'] == 'delslice':
        args[0] = tuple(args[0])
    return {'path': [tuple(s) for s in d['path']], 'op': d['op'], 'member': d.get('member'), 'args': args,
            'kept': bool(d.get('kept')), 'same_object': bool(d.get('same_object'))}


def has_float(sch, tname):
    from .c18 import has_float as hf
    return hf(sch, tname)


def elem_class_lookup(sch, mod, model):
    def lookup(op, values):
        t, holder = model.resolve_path(op['path'])
        m = model.member(t, op['member'])
        r = sch.resolve(m.type)
        cls = getattr(mod, r.name)
        out = []
        for v in values:
            if op.get('same_object') and out:
                out.append(out[0])
                continue
            e = cls()
            pyrt.build(e, sch, r.name, v)
            out.append(e)
        lookup.last = out
        return out
    lookup.last = None
    return lookup


def kind_of_target(sch, model, op):
    t, _ = model.resolve_path(op['path'])
    r = sch.resolve(t)
    if r.kind == 'union':
        return 'union'
    m = model.member(t, op['member'])
    comp = A.is_comp(sch, m.type)
    base = 'bytes' if m.type == 'byte' else ('composite' if comp else
                                              ('enum' if not isinstance(sch.resolve(m.type), str) else
                                               ('float' if sch.resolve(m.type) in S.FLOATS else 'int')))
    return '%s-%s' % (m.kind, base)


def run_history(acc, sch, w, mod, tname, tags, rng, length, ops=None, packed=False):
    cls = getattr(mod, tname)
    msg = cls()
    model = A.Model(sch, tname)
    lookup = elem_class_lookup(sch, mod, model)
    floaty = has_float(sch, tname)
    history = []
    accepted_mut = 0
    fresh_bytes_unset = True   # any never-assigned unsized bytes field (also in added elements) has the str default
    unset_reported = False

    def witness(**kw):
        sub = sch.closure(tname)
        wit = {'schema_json': sub.to_json(), 'schema': sub.to_prophy(), 'type': tname, 'tags': tags,
               'history': list(history), 'history_len': len(history)}
        wit.update(kw)
        return wit

    try:
        before = observe(msg, sch, tname)
    except Exception as e:  # noqa
        acc.violation(PROP, 'fresh-message-observation-raises:%s' % type(e).__name__,
                      witness(error='%s: %s' % (type(e).__name__, e)))
        return
    handles = {}
    for step in range(length):
        op = ops[step] if ops is not None else gen_op(model, rng)
        if ops is None and not op['path'] and op['op'] not in ('disc', 'get', 'set') and rng.random() < 0.5:
            op['kept'] = True      # use the array object handed out the first time (if any) instead of reading the field again
        if ops is not None and step >= len(ops):
            break
        if op['op'] == 'rawattr':
            history.append(op_repr(op))
            acc.ev()
            acc.count('operations')
            acc.count('counter_or_unknown_attribute_assignments')
            acc.feature('op:rawattr')
            try:
                tgt = A.navigate(msg, op['path'])
                setattr(tgt, op['member'], op['args'][0])
                got = A.OK
            except Exception as e:  # noqa
                got = type(e).__name__
                tgt = None
            acc.sig(('rawattr', 'packed' if packed else 'padded', got))
            try:
                now = observe(msg, sch, tname)
            except Exception as e:  # noqa
                acc.violation(PROP, 'observation-raises-%s-after:rawattr' % type(e).__name__,
                              witness(error='%s: %s' % (type(e).__name__, e)))
                return
            readback = None
            if tgt is not None:
                try:
                    readback = repr(getattr(tgt, op['member']))
                except Exception:  # noqa
                    readback = None
            if (now[0], now[1], now[2]) != (before[0], before[1], before[2]) or \
                    (readback is not None and (op['member'].startswith('num_of_') or op['member'] in
                                               set(x.sizer for x in sch.resolve(model.resolve_path(op['path'])[0]).members
                                                   if x.kind == S.EXT))):
                acc.violation(PROP, 'counter-or-unknown-attribute-assignment-is-observable',
                              witness(result=got, reads_back=readback, before=before[1], after=now[1]))
                return
            before = now
            continue
        tk = kind_of_target(sch, model, op)
        pre_state = copy.deepcopy(model.state)
        expected = model.expect_and_apply(op)
        history.append(op_repr(op))
        if op.get('kept'):
            acc.count('operations_through_a_kept_array_object')
        exc = A.perform(msg, op, lookup, handles)
        if exc is None and op['op'] in ('extend_copy', 'add', 'set', 'disc'):
            # structural invariant at a quiescent point: the message is a tree of its own objects - nothing is
            # reachable under two paths, and nothing of the messages handed to extend() has become part of it
            ids = pyrt.object_ids(msg, sch, tname)
            seen_ids = {}
            dup = None
            for pth, i in ids:
                if i in seen_ids:
                    dup = (seen_ids[i], pth)
                    break
                seen_ids[i] = pth
            foreign = None
            if dup is None and op['op'] == 'extend_copy' and lookup.last:
                mine = set(seen_ids)
                t, _h = model.resolve_path(op['path'])
                et = model.member(t, op['member']).type
                for src in lookup.last:
                    hit = [p_ for p_, i in pyrt.object_ids(src, sch, et) if i in mine]
                    if hit:
                        foreign = hit[0]
                        break
            acc.count('object_tree_checks')
            if dup or foreign:
                acc.violation(PROP, 'object-shared-between-%s' % ('two-places-of-the-message' if dup else
                                                                  'the-message-and-a-message-passed-to-extend'),
                              witness(history=history, paths=dup or foreign))
                return
        acc.ev()
        acc.count('operations')
        got = A.OK if exc is None else type(exc).__name__
        opk = '%s:%s' % (op['op'], tk)
        acc.sig((tname if tags[0].startswith('rand') else tuple(tags), opk, got))
        acc.feature('op:' + op['op'])
        acceptable = {expected} if expected == A.OK else ({expected, A.PROPHY} | model.also)
        if got not in acceptable:
            if (got == 'TypeError' and op['op'] == 'setslice' and tk.startswith('fixed-')
                    and isinstance(op['args'][1], A.Gen)):
                mech = 'fixed-array-slice-assignment-from-iterator-raises-TypeError'
            elif exc is None and model.reason == 'sizer-range':
                mech = 'ext-sized-array-grows-beyond-the-range-of-its-sizer'
            elif exc is not None and got not in (A.PROPHY, A.INDEX, A.VALUE):
                mech = 'operation-raises-%s:%s' % (got, opk)
            elif exc is None:
                mech = 'accepts-what-model-rejects(%s):%s' % (expected, opk)
            elif expected == A.OK:
                mech = 'rejects-what-model-accepts(%s):%s' % (got, opk)
            else:
                mech = 'wrong-exception(%s-not-%s):%s' % (got, expected, opk)
            acc.violation(PROP, mech, witness(expected=expected, got=got,
                                              error=None if exc is None else '%s: %s' % (got, exc),
                                              model_state_before=C.jsonable(pre_state)))
            return
        try:
            now = observe(msg, sch, tname)
        except Exception as e:  # noqa
            acc.violation(PROP, 'observation-raises-%s-after:%s' % (type(e).__name__, opk),
                          witness(error='%s: %s' % (type(e).__name__, e)))
            return
        if expected != A.OK:
            acc.count('rejected_operations')
            if (now[0], now[1], now[2]) != (before[0], before[1], before[2]):
                acc.violation(PROP, 'rejected-operation-changed-message:%s' % opk,
                              witness(before=C.jsonable(before[0]), after=C.jsonable(now[0])))
                return
        else:
            acc.count('accepted_operations')
            if op['op'] not in ('get',):
                accepted_mut += 1
        val, text, data, err = now
        val, unset_seen = normalise_unset_bytes(val)
        if unset_seen and not unset_reported:
            unset_reported = True
            acc.violation(PROP, 'unset-bytes-field-reads-as-str', witness(message=C.jsonable(now[0])))
        if val != model.state:
            acc.violation(PROP, 'state-differs-from-model-after:%s' % opk,
                          witness(message=C.jsonable(val), model=C.jsonable(model.state)))
            return
        if model.encodable():
            if err is not None:
                if isinstance(err, TypeError) and unset_seen:
                    acc.count('encode_not_judged_unset_bytes_default_is_str(C01 known finding)')
                else:
                    acc.violation(PROP, 'reachable-state-cannot-be-encoded:%s:after-%s' % (type(err).__name__, opk),
                                  witness(error='%s: %s' % (type(err).__name__, err), state=C.jsonable(val)))
                    return
            else:
                try:
                    exp, _ = w.encode(tname, model.state, '<')
                except Exception:  # noqa
                    exp = None
                if packed:
                    acc.count('packed_encodings_not_compared_with_the_padded_reference')
                elif exp is not None and data != exp:
                    acc.violation(PROP, 'encoding-differs-from-reference-after:%s' % opk,
                                  witness(encoded=C.hexs(data), reference=C.hexs(exp), state=C.jsonable(val)))
                    return
                acc.count('encodings_compared')
        else:
            import prophy
            acc.count('states_with_unequal_shared_sizer_arrays')
            if isinstance(err, TypeError) and unset_seen:
                acc.count('encode_not_judged_unset_bytes_default_is_str(C01 known finding)')
            elif err is None or not isinstance(err, prophy.ProphyError):
                acc.violation(PROP, 'unequal-shared-sizer-arrays-not-refused-with-ProphyError',
                              witness(error=None if err is None else '%s: %s' % (type(err).__name__, err)))
                return
        if not floaty and not unset_seen:
            if text != w.render(tname, model.state):
                acc.violation(PROP, 'str-differs-from-reference-after:%s' % opk,
                              witness(text=text, reference=w.render(tname, model.state)))
                return
        before = now
    acc.count('histories')
    if accepted_mut >= 3:
        acc.count('nontrivial_histories')
    if len(acc.p['samples']) < 2 and accepted_mut >= 4:
        acc.sample({'schema': sch.closure(tname).to_prophy(), 'type': tname, 'history': history[:10],
                    'final_state': C.jsonable(model.state)})


CANARY_SCHEMA = [S.Struct('CX', [S.Member('n', 'u8'), S.Member('a', 'u16', S.EXT, sizer='n'),
                                  S.Member('f', 'u8', S.FIXED, 3), S.Member('b', 'byte', S.DYNAMIC)])]
CANARY_HISTORIES = [
    [{'path': [], 'op': 'extend', 'member': 'a', 'args': [[0] * 300]}],
    [{'path': [], 'op': 'setslice', 'member': 'f', 'args': [(1, 3, None), A.Gen([7, 8])]}],
    [{'path': [], 'op': 'append', 'member': 'a', 'args': [5]}],
]


def packed_twin(mod):
    """The generated module re-based on prophy.struct_packed (docs/python_codec.rst 'packed mode'): same API, no padding."""
    import importlib
    with open(mod.__file__) as f:
        src = f.read()
    if 'prophy.struct)' not in src:
        return None
    path = mod.__file__[:-3] + '_packed.py'
    with open(path, 'w') as f:
        f.write(src.replace('prophy.struct)', 'prophy.struct_packed)'))
    importlib.invalidate_caches()
    return importlib.import_module(mod.__name__ + '_packed')


def run_canaries(acc, wd):
    """Scripted histories that reach the recorded known findings on every run while they persist."""
    sch = S.Schema(CANARY_SCHEMA)
    try:
        mod, nodes = pyrt.compile_python(sch.to_prophy(), wd)
    except pyrt.CompileFailed as e:
        acc.prereq({'stage': e.stage, 'error': str(e)[:300]})
        return
    import random
    for ops in CANARY_HISTORIES:
        run_history(acc, sch, W.Wire(sch), mod, 'CX', ['canary'], random.Random(0), len(ops), ops)


def run_shard(spec):
    import random
    acc = Acc()
    with C.Workdir() as wd:
        if spec.get('seed', 0) % 1000 == 0 and spec['kind'] != 'replay':
            run_canaries(acc, wd)
        for sch, names, tagmap, mod, nodes, rng in C.iter_py_schemas(spec, acc, wd):
            w = W.Wire(sch)
            pk = None
            if spec['kind'] != 'replay':
                try:
                    pk = packed_twin(mod)
                except Exception as e:  # noqa
                    acc.prereq({'stage': 'import', 'error': 'packed twin: %s' % str(e)[:300]})
            if spec['kind'] == 'seq' and spec['nrand'] <= 1:
                names = [n for i, n in enumerate(names) if i % 2 == spec['seed'] % 2]
            for n in names:
                if spec['kind'] == 'replay':
                    ops = [op_unrepr(d) for d in spec['extra']['history']]
                    if 'packed' in spec['extra'].get('tags', []):
                        run_history(acc, sch, w, packed_twin(mod), n, ['replay', 'packed'], rng, len(ops), ops, packed=True)
                    else:
                        run_history(acc, sch, w, mod, n, ['replay'], rng, len(ops), ops)
                    continue
                for k in range(2 if spec['nrand'] <= 1 else 5):
                    run_history(acc, sch, w, mod, n, tagmap[n], random.Random(rng.random()), rng.randint(5, 40))
                if pk is not None and rng.random() < 0.5:
                    acc.count('packed_mode_histories')
                    run_history(acc, sch, w, pk, n, tagmap[n] + ['packed'], random.Random(rng.random()),
                                rng.randint(5, 40), packed=True)
    return acc.done()


def finish(ctx, merged, specs):
    if specs and specs[0]['kind'] == 'replay':
        return
    need = ['op:rawattr', 'op:set', 'op:disc', 'op:append', 'op:insert', 'op:extend', 'op:setitem', 'op:setslice', 'op:delitem',
            'op:delslice', 'op:remove', 'op:add', 'op:extend_copy', 'op:get']
    missing = [f for f in need if f not in merged['features']]
    for k in ('accepted_operations', 'rejected_operations', 'encodings_compared', 'packed_mode_histories',
              'counter_or_unknown_attribute_assignments'):
        if not merged['counters'].get(k):
            missing.append(k)
    if missing and not merged['inconclusive']:
        merged['inconclusive'] = 'coverage floor not met: %s' % missing
