"""C11 - copy_from yields an equal, fully independent message (DESIGN 3/C11)."""
import random

from .. import schema as S, wire as W, values as V, pyrt
from ..harness import Acc
from . import common as C

PROP = 'C11'
RULE = ("for every struct/union of generated schemas and ordered pairs (a, b) drawn from its default/max/odd/random "
        "values: b.copy_from(a) must not raise, read(b)==read(a)==value of a, encodings equal in both byte orders; then "
        "leaf values of a are changed in place at every nesting depth (containers and nested objects kept) and b must be "
        "observably unchanged (value, str, bytes), and vice versa; the same for elements passed to composite "
        "array.extend(). distinct = (type layout, shape of a, shape of b); non-trivial = type has a composite, array or "
        "optional member")
ASSUMPTIONS = [
    "observations are made through the public API only: attribute reads, len/iteration, str(), encode()",
    "in-place mutation changes every reachable leaf (scalar, enum, bytes, array element, union arm field) without "
    "replacing containers, so any shared sub-object between the two messages becomes visible",
]


def shards(ctx):
    return C.py_specs(ctx, rand_quick=64, rand_thorough=1600, nrand_quick=1, nrand_thorough=3, wrap_every=3)


def replay_spec(ctx, witness):
    return C.replay_spec_generic(ctx, witness)


def observe(msg, sch, tname):
    return (pyrt.read(msg, sch, tname), str(msg), msg.encode('<'), msg.encode('>'))


def shape(v):
    if isinstance(v, dict):
        return tuple((k, shape(x)) for k, x in sorted(v.items()))
    if isinstance(v, tuple):
        return ('arm', v[0], shape(v[1]))
    if isinstance(v, list):
        return ('n', len(v))
    if isinstance(v, bytes):
        return ('b', len(v))
    return 'p' if v is not None else None


def interesting(sch, tname):
    r = sch.resolve(tname)
    if r.kind == 'union':
        return True
    return any(m.kind != S.PLAIN or pyrt.is_composite(sch, m.type) for m in r.members)


def check_pair(acc, sch, w, mod, tname, tags, va, vb, rng):
    cls = getattr(mod, tname)
    acc.ev()
    if interesting(sch, tname):
        acc.sig((tname if tags[0].startswith('rand') else tuple(tags), shape(va), shape(vb)))

    def witness(**kw):
        sub = sch.closure(tname)
        wit = {'schema_json': sub.to_json(), 'schema': sub.to_prophy(), 'type': tname, 'tags': tags,
               'value': C.jsonable(va), 'b_before': C.jsonable(vb)}
        wit.update(kw)
        return wit
    # Two ways to prepare the source: 'dense' assigns every field and observes the source before the copy; 'sparse'
    # performs the fewest operations (arms selected through the discriminator only, defaults never touched) and the
    # source is NOT read before copy_from, so nothing is materialised by a getter. Expected value: the reference's.
    sparse = rng.random() < 0.5
    # a third way: the source is a long-lived decode target - it received va's, then vb's, then va's encoding again
    # (a union returns to an arm it held before, arrays shrink and grow); it is observed before the copy
    decoded = rng.random() < 0.25
    if decoded:
        sparse = False
    try:
        a, b = cls(), cls()
        if decoded:
            for vv in (va, vb, va):
                a.decode(w.encode(tname, vv, '<')[0], '<')
            acc.count('sources_with_a_decode_history')
        else:
            pyrt.build(a, sch, tname, va, sparse)
        pyrt.build(b, sch, tname, vb)
        if sparse:
            ref = cls()
            pyrt.build(ref, sch, tname, va)
            oa = observe(ref, sch, tname)
        else:
            oa = observe(a, sch, tname)
    except Exception:  # noqa - C01/C10's business
        acc.count('setup_raised_not_judged_here')
        return
    acc.count('sparse_unobserved_sources' if sparse else 'decoded_observed_sources' if decoded else 'dense_observed_sources')
    try:
        b.copy_from(a)
    except Exception as e:  # noqa
        acc.violation(PROP, 'copy_from-raises:%s:%s' % (type(e).__name__, _where(sch, tname, va)),
                      witness(error='%s: %s' % (type(e).__name__, e), sparse_source=sparse))
        return
    acc.count('copies')
    try:
        ob = observe(b, sch, tname)
        oa2 = observe(a, sch, tname)
    except Exception as e:  # noqa
        acc.violation(PROP, 'observation-after-copy-raises:%s' % type(e).__name__,
                      witness(error='%s: %s' % (type(e).__name__, e)))
        return
    if oa2 != oa:
        acc.violation(PROP, 'source-changed-by-copy', witness(after=C.jsonable(oa2[0])))
        return
    if ob != oa:
        acc.violation(PROP, 'copy-differs-from-source:' + _diff_kind(sch, tname, oa[0], ob[0]),
                      witness(copy=C.jsonable(ob[0]), sparse_source=sparse))
        return
    # structural independence: source and copy are two trees without a common object
    try:
        ia, ib = pyrt.object_ids(a, sch, tname), pyrt.object_ids(b, sch, tname)
    except Exception as e:  # noqa
        acc.violation(PROP, 'observation-after-copy-raises:%s' % type(e).__name__,
                      witness(error='%s: %s' % (type(e).__name__, e)))
        return
    ida = dict((i, p_) for p_, i in ia)
    common = [(ida[i], p_) for p_, i in ib if i in ida]
    acc.count('object_tree_checks')
    if common or len(set(i for _p, i in ib)) != len(ib):
        acc.violation(PROP, 'aliasing:copy-and-source-share-an-object' if common else 'aliasing:object-twice-in-the-copy',
                      witness(shared=common[:4], sparse_source=sparse))
        return
    # independence, both directions
    for who, x, other in (('source', a, b), ('copy', b, a)):
        try:
            oother = observe(other, sch, tname)
            ops = rng.random() < 0.5
            acc.count('mutations_starting_with_a_whole_array_operation' if ops else 'mutations_leaf_by_leaf')
            changed = pyrt.mutate_in_place(x, sch, tname, rng, grow=True, array_ops=ops)
            now = observe(other, sch, tname)
        except Exception as e:  # noqa
            acc.violation(PROP, 'mutation-after-copy-raises:%s' % type(e).__name__,
                          witness(error='%s: %s' % (type(e).__name__, e), mutated=who))
            return
        acc.count('leaves_mutated', changed)
        if changed:
            acc.count('independence_checks')
        if now != oother:
            acc.violation(PROP, 'aliasing:mutating-%s-changes-the-other' % who,
                          witness(other_before=C.jsonable(oother[0]), other_after=C.jsonable(now[0])))
            return
    if len(acc.p['samples']) < 2 and interesting(sch, tname):
        acc.sample({'schema': sch.closure(tname).to_prophy(), 'type': tname, 'a': C.jsonable(va), 'b_before': C.jsonable(vb),
                    'history': ['b.copy_from(a)', 'mutate a in place', 'observe b', 'mutate b in place', 'observe a']})


def check_extend(acc, sch, w, mod, tname, tags, v, rng):
    """Elements copied into composite arrays by extend() must be independent copies."""
    r = sch.resolve(tname)
    if r.kind != 'struct':
        return
    for m in r.members:
        if m.kind not in (S.DYNAMIC, S.LIMITED, S.GREEDY, S.EXT) or m.type == 'byte' or not pyrt.is_composite(sch, m.type):
            continue
        if not v.get(m.name):
            continue
        shared = [x for x in r.members if x.kind == S.EXT and x.sizer == m.sizer and x is not m] if m.kind == S.EXT else []
        cls = getattr(mod, tname)
        try:
            src, dst = cls(), cls()
            pyrt.build(src, sch, tname, v)
            arr = getattr(dst, m.name)
            del arr[:]
            # the iterable handed to extend(): a list, a tuple, the source array itself, or (where the array needs no
            # len() of it) something that can be walked only once
            sa = getattr(src, m.name)
            forms = ['list', 'tuple', 'array'] + (['generator', 'iter', 'reversed-twice'] if m.kind != S.LIMITED else [])
            form = rng.choice(forms)
            acc.feature('extend-arg:' + form)
            arg = {'list': lambda: sa[:], 'tuple': lambda: tuple(sa[:]), 'array': lambda: sa,
                   'generator': lambda: (e for e in sa[:]), 'iter': lambda: iter(sa[:]),
                   'reversed-twice': lambda: reversed(list(reversed(sa[:])))}[form]()
            arr.extend(arg)
        except Exception as e:  # noqa
            acc.violation(PROP, 'extend-raises:%s' % type(e).__name__,
                          {'schema': sch.closure(tname).to_prophy(), 'type': tname, 'member': m.name,
                           'schema_json': sch.closure(tname).to_json(), 'value': C.jsonable(v),
                           'error': '%s: %s' % (type(e).__name__, e)})
            continue
        acc.ev()
        acc.count('extends')
        elems_src = [pyrt.read(e, sch, m.type) for e in getattr(src, m.name)]
        elems_dst = [pyrt.read(e, sch, m.type) for e in getattr(dst, m.name)]
        wit = {'schema': sch.closure(tname).to_prophy(), 'schema_json': sch.closure(tname).to_json(), 'type': tname,
               'member': m.name, 'value': C.jsonable(v)}
        if elems_src != elems_dst:
            acc.violation(PROP, 'extend-copy-differs', dict(wit, copied=C.jsonable(elems_dst)))
            continue
        for e in getattr(src, m.name):
            pyrt.mutate_in_place(e, sch, m.type, rng, array_ops=rng.random() < 0.5)
        after = [pyrt.read(e, sch, m.type) for e in getattr(dst, m.name)]
        if after != elems_dst:
            acc.violation(PROP, 'aliasing:extend-shares-elements', dict(wit, after=C.jsonable(after)))
            continue
        snap = [pyrt.read(e, sch, m.type) for e in getattr(src, m.name)]
        for e in getattr(dst, m.name):
            pyrt.mutate_in_place(e, sch, m.type, rng, array_ops=rng.random() < 0.5)
        if [pyrt.read(e, sch, m.type) for e in getattr(src, m.name)] != snap:
            acc.violation(PROP, 'aliasing:extend-shares-elements', dict(wit, direction='copy-to-source'))
            continue
        acc.count('independence_checks')


def _where(sch, tname, va):
    """Coarse location class of what the source value contains (for mechanism names)."""
    r = sch.resolve(tname)
    if r.kind == 'union':
        return 'union'
    kinds = set()
    for m in r.members:
        if m.name not in va or m.type == 'byte':
            continue
        comp = pyrt.is_composite(sch, m.type)
        if m.kind == S.OPTIONAL and comp and va[m.name] is not None:
            kinds.add('present-optional-composite')
        if m.kind == S.LIMITED and comp and va[m.name]:
            kinds.add('limited-composite-array')
    return '+'.join(sorted(kinds)) or 'other'


def _diff_kind(sch, tname, va, vb):
    r = sch.resolve(tname)
    if r.kind == 'union' or not isinstance(va, dict) or not isinstance(vb, dict):
        return 'union'
    for m in r.members:
        if m.name in va and va[m.name] != vb.get(m.name):
            comp = m.type != 'byte' and pyrt.is_composite(sch, m.type)
            return '%s%s' % (m.kind, '-composite' if comp else '')
    return 'text-or-bytes'


def run_shard(spec):
    acc = Acc()
    with C.Workdir() as wd:
        for sch, names, tagmap, mod, nodes, rng in C.iter_py_schemas(spec, acc, wd):
            w = W.Wire(sch)
            for n in names:
                if spec['kind'] == 'replay':
                    ex = spec['extra']
                    # a replay tries every way of preparing the source, several times (the mutation pass draws too)
                    for k in range(24):
                        check_pair(acc, sch, w, mod, n, ['replay'], C.unjson(ex['value']),
                                   C.unjson(ex.get('b_before', ex['value'])), random.Random(k))
                    continue
                vals = [v for _, v in V.value_set(sch, w, n, rng, nrand=spec['nrand'], aligned_greedy=False)]
                if not interesting(sch, n):
                    vals = vals[:2]
                for i, va in enumerate(vals):
                    for j, vb in enumerate(vals):
                        if spec['nrand'] <= 1 and len(vals) > 3 and (i + j) % 2 and i and j:
                            continue
                        check_pair(acc, sch, w, mod, n, tagmap[n], va, vb, rng)
                    check_extend(acc, sch, w, mod, n, tagmap[n], va, rng)
    return acc.done()


def finish(ctx, merged, specs):
    if specs and specs[0]['kind'] == 'replay':
        return
    missing = [k for k in ('copies', 'independence_checks', 'extends') if not merged['counters'].get(k)]
    if missing and not merged['inconclusive']:
        merged['inconclusive'] = 'coverage floor not met: %s' % missing
