"""C12 - whatever prophyc accepts, every back-end can realise; rule breakers are rejected (DESIGN 3/C12)."""
import os
import random
import re
import subprocess

from .. import schema as S, wire as W, pyrt, pc, cppdrv
from ..harness import Acc
from . import common as C, cppcommon as CC

PROP = 'C12'
RULE = ("(i) generator-valid schemas (member sequences, wrappers, random deep, incl. discriminators/enumerators up to "
        "2^32-1) must be accepted by prophyc and every artifact must be usable: the Python module imports and every "
        "type instantiates and encodes its default, .ppf.cpp and .pp.cpp compile with g++ -std=c++11 against the shipped "
        "headers; (ii) schemas that break exactly one documented composability rule (one of ~45 templates in 16 classes, "
        "also through typedefs and constants) placed after a random valid prelude must be rejected with a diagnostic "
        "naming file and line; an accepted rule breaker is additionally fed to the back-ends to show the disagreement. "
        "distinct = (rule class or layout signature, outcome)")
ASSUMPTIONS = [
    "rule classes are those the property enumerates (docs/schema.rst, docs/encoding.rst notes)",
    "'usable' = imports/instantiates/encodes default (Python), compiles (C++); warnings are tolerated",
    "the C++ full back-end is only required for schemas it documents as supported (one ext-sized array per sizer)",
]
TIMEOUT = {'quick': 1500, 'thorough': 10800}
WORKERS = 10

PRELUDE = ("struct F { u8 a; u16 b; };\nstruct D { u8 x<>; };\nstruct G { u8 g<...>; };\n"
           "typedef F TF;\ntypedef D TD;\ntypedef G TG;\nenum E { E_1 = 1, E_2 = 2 };\nconst ZERO = 0;\nconst NEG = -1;\n"
           "const BIG = 4294967296;\nconst TWO = 2;\n"
           # unlimited / dynamic through nesting only, in every position the stiffness computation distinguishes
           "struct GD { u8 d<>; G tail; };\nstruct GN { u8 p; G tail; };\nstruct GNN { u16 q; GN tail; };\n"
           "struct GDY { D d; u8 mid; TG tail; };\ntypedef GD TGD;\n"
           # earlier structs that happen to have integer fields called like the sizers the breakers name
           "struct NZ { u32 n; u8 nope; u16 k; u32 num_of_x; };\nstruct NZ2 { NZ h; u8 x<>; };\n"
           "struct DN { u8 p; D d; u8 q; };\nstruct DL { u8 p; D d; };\nstruct DNN { DN a; u8 b; };\ntypedef DNN TDNN;\n")

BREAKERS = [
    ('unlimited-not-last', 'struct B { u8 g<...>; u8 a; };'),
    ('unlimited-not-last', 'struct B { bytes g<...>; u8 a; };'),
    ('unlimited-not-last', 'struct B { G g; u8 a; };'),
    ('unlimited-not-last', 'struct B { TG g; u8 a; };'),
    ('unlimited-not-last', 'struct B { u8 n; u8 x<@n>; G g; u8 a; };'),
    ('unlimited-in-array', 'struct B { G x<>; };'),
    ('unlimited-in-array', 'struct B { TG x<>; };'),
    ('unlimited-in-array', 'struct B { G x[2]; };'),
    ('unlimited-in-array', 'struct B { G x<2>; };'),
    ('unlimited-in-array', 'struct B { G x<...>; };'),
    ('unlimited-in-array', 'struct B { u8 n; G x<@n>; };'),
    ('dynamic-in-fixed-array', 'struct B { D x[2]; };'),
    ('dynamic-in-fixed-array', 'struct B { TD x[TWO]; };'),
    ('dynamic-in-limited-array', 'struct B { D x<2>; };'),
    ('dynamic-in-limited-array', 'struct B { TD x<2>; };'),
    ('dynamic-in-optional', 'struct B { D* x; };'),
    ('dynamic-in-optional', 'struct B { TD* x; };'),
    ('unlimited-in-optional', 'struct B { G* x; };'),
    ('dynamic-in-union-arm', 'union B { 1: D x; };'),
    ('dynamic-in-union-arm', 'union B { 1: u8 a; 2: TD x; };'),
    ('unlimited-in-union-arm', 'union B { 1: G x; };'),
    ('sizer-missing', 'struct B { u8 x<@nope>; };'),
    ('sizer-after-array', 'struct B { u8 x<@n>; u8 n; };'),
    ('sizer-optional', 'struct B { u8* n; u8 x<@n>; };'),
    ('sizer-not-integer', 'struct B { float n; u8 x<@n>; };'),
    ('sizer-not-integer', 'struct B { E n; u8 x<@n>; };'),
    ('sizer-not-integer', 'struct B { F n; u8 x<@n>; };'),
    ('sizer-not-integer', 'struct B { u8 n[2]; u8 x<@n>; };'),
    ('sizer-not-integer', 'struct B { u8 k; u8 n<@k>; u8 x<@n>; };'),
    ('duplicate-field', 'struct B { u8 a; u16 a; };'),
    ('duplicate-field', 'struct B { u8 x<>; u32 num_of_x; };'),
    ('duplicate-type', 'struct F { u8 z; };'),
    ('duplicate-type', 'union F { 1: u8 z; };'),
    ('duplicate-type', 'typedef u8 F;'),
    ('duplicate-type', 'enum F { F_1 = 1 };'),
    ('duplicate-enumerator', 'enum B { X = 1, X = 2 };'),
    ('duplicate-enumerator', 'enum B { E_1 = 5 };'),
    ('duplicate-arm', 'union B { 1: u8 a; 2: u16 a; };'),
    ('duplicate-discriminator', 'union B { 1: u8 a; 1: u16 b; };'),
    ('duplicate-discriminator', 'union B { E_1: u8 a; 1: u16 b; };'),
    ('duplicate-discriminator', 'union B { 2: u8 a; TWO: u16 b; };'),
    ('non-positive-size', 'struct B { u8 x[0]; };'),
    ('non-positive-size', 'struct B { u8 x[-1]; };'),
    ('non-positive-size', 'struct B { u8 x<0>; };'),
    ('non-positive-size', 'struct B { u8 x[ZERO]; };'),
    ('non-positive-size', 'struct B { u8 x[2-2]; };'),
    ('non-positive-size', 'struct B { bytes x[NEG]; };'),
    ('enumerator-out-of-32-bits', 'enum B { X = -1 };'),
    ('enumerator-out-of-32-bits', 'enum B { X = 4294967296 };'),
    ('enumerator-out-of-32-bits', 'enum B { X = BIG };'),
    ('enumerator-out-of-32-bits', 'enum B { X = NEG };'),
    ('discriminator-out-of-32-bits', 'union B { -1: u8 a; };'),
    ('discriminator-out-of-32-bits', 'union B { 4294967296: u8 a; };'),
    ('discriminator-out-of-32-bits', 'union B { BIG: u8 a; };'),
]
for _u in ('GD', 'TGD', 'GN', 'GNN', 'GDY'):
    BREAKERS += [('unlimited-not-last', 'struct B { %s g; u8 a; };' % _u),
                 ('unlimited-not-last', 'struct B { u8 n; %s g; u8 x<@n>; };' % _u),
                 ('unlimited-in-array', 'struct B { %s x<>; };' % _u),
                 ('unlimited-in-array', 'struct B { %s x[2]; };' % _u),
                 ('unlimited-in-array', 'struct B { %s x<2>; };' % _u),
                 ('unlimited-in-array', 'struct B { u8 p; %s x<...>; };' % _u),
                 ('unlimited-in-optional', 'struct B { %s* x; };' % _u),
                 ('unlimited-in-union-arm', 'union B { 1: u8 a; 2: %s x; };' % _u)]
# the offending element in the first / a middle position among its siblings (a check that only looks at the last one ...)
for _t, _cls in (('D', 'dynamic-in-union-arm'), ('TD', 'dynamic-in-union-arm'), ('DN', 'dynamic-in-union-arm'),
                 ('G', 'unlimited-in-union-arm'), ('GD', 'unlimited-in-union-arm')):
    BREAKERS += [(_cls, 'union B { 1: %s x; 2: u32 b; };' % _t),
                 (_cls, 'union B { 1: u8 a; 2: %s x; 3: u16 c; };' % _t),
                 (_cls, 'union B { 1: %s x; 2: %s y; 3: u16 c; };' % (_t, _t))]
BREAKERS += [('duplicate-arm', 'union B { 1: u8 a; 2: u16 b; 3: u32 a; };'),
             ('duplicate-discriminator', 'union B { 1: u8 a; 2: u16 b; 1: u32 c; };'),
             ('duplicate-discriminator', 'union B { 3: u8 a; 1: u16 b; 1: u32 c; 4: u8 d; };'),
             ('duplicate-field', 'struct B { u8 a; u16 b; u32 c; u8 a; };'),
             ('duplicate-field', 'struct B { u8 z; u8 a; u16 a; u32 c; };'),
             ('duplicate-enumerator', 'enum B { X = 1, Y = 2, Z = 3, X = 4 };'),
             ('dynamic-in-fixed-array', 'struct B { D x[2]; u8 a; u8 b; };'),
             ('dynamic-in-fixed-array', 'struct B { u8 a; D x[2]; u8 b; };'),
             ('dynamic-in-optional', 'struct B { D* x; u8 a; };'),
             ('dynamic-in-optional', 'struct B { u8 a; D* x; u8 b; };'),
             ('unlimited-in-array', 'struct B { G x<>; u8 a; };'),
             ('non-positive-size', 'struct B { u8 x[0]; u8 a; };'),
             ('non-positive-size', 'struct B { u8 a; u8 x[0]; u8 b; };'),
             ('sizer-missing', 'struct B { u8 a; u8 x<@nope>; u8 b; };'),
             ('sizer-not-integer', 'struct B { u8 a; float n; u8 x<@n>; u8 b; };'),
             ('enumerator-out-of-32-bits', 'enum B { X = 1, Y = -1, Z = 2 };'),
             ('enumerator-out-of-32-bits', 'enum B { X = 1, Y = 4294967296, Z = 2 };'),
             ('enumerator-out-of-32-bits', 'enum B { X = 1, Y = X - 2 };'),
             ('discriminator-out-of-32-bits', 'union B { 1: u8 a; -1: u8 b; 2: u8 c; };'),
             ('discriminator-out-of-32-bits', 'union B { 1: u8 a; 4294967296: u8 b; 2: u8 c; };')]
for _d in ('DN', 'DL', 'DNN', 'TDNN'):
    BREAKERS += [('dynamic-in-fixed-array', 'struct B { %s x[2]; };' % _d),
                 ('dynamic-in-limited-array', 'struct B { u8 a; %s x<2>; };' % _d),
                 ('dynamic-in-optional', 'struct B { %s* x; };' % _d),
                 ('dynamic-in-union-arm', 'union B { 1: u8 a; 2: %s x; };' % _d)]
# legal but unusual schema texts (nothing in docs/schema.rst forbids them); (tag, text)
ODDITIES = [
    ('duplicate-enumerator-values', 'enum E { E_A = 1, E_B = 1, E_C = 2 };\nstruct S { E e; E f[2]; };'),
    ('enumerators-from-enumerators', 'const A = 2;\nenum E { E_A = A, E_B = E_A + 1 };\nstruct S { E e[E_B]; u8 x[A]; };'),
    ('zero-enumerator-and-discriminator', 'enum E { E_Z = 0 };\nunion U { 0: E e; };\nstruct S { U u[2]; E* o; };'),
    ('typedef-chain-sizer', 'typedef u8 T1;\ntypedef T1 T2;\ntypedef T2 T3;\ntypedef T3 T4;\nstruct S { T4 n; T4 x<@n>; };'),
    ('single-member-kinds', 'struct A { u8* o; };\nstruct B { bytes b<>; };\nstruct C { u64 x<...>; };\nunion U { 7: u8 a; };'),
    ('same-values-in-two-enums', 'enum E1 { X1 = 1 };\nenum E2 { X2 = 1 };\nunion U { X1: E1 a; 2: E2 b; };'),
    ('max-values', 'enum E { E_MAX = 0xFFFFFFFF, E_MIN = 0 };\nconst BIG = 0xFFFFFFFFFFFFFFFF;\nstruct S { E e; };'),
    ('typedef-of-everything', 'struct F { u8 a; };\nunion U { 1: u8 a; };\nenum E { E_A = 1 };\ntypedef F TF;\ntypedef U TU;\n'
                              'typedef E TE;\ntypedef TF TTF;\nstruct S { TTF f[2]; TU u; TE e; TF* o; TTF d<>; };'),
    ('long-names', 'struct %s { u8 %s; };' % ('S' + 'x' * 200, 'f' + 'y' * 200)),
    ('digits-and-underscores', 'struct S1_ { u8 a_1; u8 b__; };\nstruct S { S1_ s_; };'),
    ('comments-everywhere', '/* a */ struct /* b */ S /* c */ { // d\n u8 /* e */ a /* f */ ; /* g */ } /* h */ ; // i'),
    ('hex-octal-sizes', 'struct S { u8 a[0x3]; u8 b[010]; u8 c<0x2>; };'),
]
DIAG_RE = re.compile(r'sch\.prophy:(\d+):(\d+): error: .+')


def shards(ctx):
    specs = []
    # (i) valid schemas through all back-ends
    nval = ctx.pick(5, 60)
    for i in range(nval):
        specs.append({'kind': 'valid', 'seed': ctx.seed * 1000 + i, 'nschemas': ctx.pick(6, 10)})
    for i, ch in enumerate(C.chunks(CC.cpp_specs(ctx, files_quick=3, per_file=80, rand_files_quick=0), 1)):
        sp = dict(ch[0])
        sp['kind2'] = sp['kind']
        sp['kind'] = 'valid-seq'
        specs.append(sp)
    specs.append({'kind': 'valid-text', 'seed': ctx.seed * 1000 + 90})
    # (ii) rule breakers
    nb = ctx.pick(4, 16)
    for i in range(nb):
        specs.append({'kind': 'breakers', 'seed': ctx.seed * 1000 + 100 + i, 'index': i, 'of': nb,
                      'rounds': ctx.pick(1, 6)})
    return specs


def replay_spec(ctx, witness):
    return {'kind': 'replay', 'seed': 0, 'extra': witness}


def backends(acc, wd, idx, text, sch=None, names=None, want_cpp=True):
    """Run prophyc for all three back-ends on text; returns dict of per-backend outcome strings ('ok' or error)."""
    d = os.path.join(wd, 'b%d' % idx)
    os.makedirs(d)
    src = os.path.join(d, 'sch.prophy')
    with open(src, 'w') as f:
        f.write(text)
    out = {}
    pkg = 'c12p%d_%d' % (os.getpid(), idx)
    pkgdir = os.path.join(d, pkg)
    os.makedirs(pkgdir)
    open(os.path.join(pkgdir, '__init__.py'), 'w').close()
    exc, _, res = pc.run_main(['--quiet', '--python_out', pkgdir, '--cpp_out', d, '--cpp_full_out', d, src])
    if exc is not None:
        # the C++ full generator refuses documented-unsupported schemas (several arrays per sizer): retry without it
        msg = str(exc)
        if 'Multiple arrays bounded by the same member' in msg:
            exc, _, res = pc.run_main(['--quiet', '--python_out', pkgdir, '--cpp_out', d, src])
            out['cpp_full'] = 'not-required'
        if exc is not None:
            out['prophyc'] = '%s: %s' % (type(exc).__name__, msg[:600])
            return out
    out['prophyc'] = 'ok'
    # python
    import importlib
    import sys
    if d not in sys.path:
        sys.path.insert(0, d)
    importlib.invalidate_caches()
    try:
        with pyrt.quiet():
            mod = importlib.import_module(pkg + '.sch')
        out['python_import'] = 'ok'
    except BaseException as e:  # noqa
        out['python_import'] = '%s: %s' % (type(e).__name__, str(e)[:300])
        mod = None
    if mod is not None and sch is not None:
        bad = None
        for n in names:
            try:
                m = getattr(mod, n)()
                pyrt.build(m, sch, n, _default(sch, n))
                m.encode('<')
            except Exception as e:  # noqa
                bad = '%s: %s: %s' % (n, type(e).__name__, str(e)[:200])
                break
        out['python_use'] = bad or 'ok'
    if want_cpp:
        for key, fn in (('cpp_full', 'sch.ppf.cpp'), ('cpp_raw', 'sch.pp.cpp')):
            if out.get(key) == 'not-required':
                continue
            try:
                cppdrv.compile_cpp([os.path.join(d, fn)], os.path.join(d, fn + '.o'), [d], sanitize=False, cxx='g++',
                                   compile_only=True)
                out[key] = 'ok'
            except cppdrv.BuildFailed as e:
                errs = [ln for ln in e.log.split('\n') if 'error' in ln]
                out[key] = (errs[0] if errs else e.log[-300:])[:400]
    return out


def _default(sch, n):
    from .. import apimodel
    return apimodel.default_of(sch, n)


def classify_backend_error(key, msg):
    m = msg.lower()
    for pat, name in (('narrow', 'narrowing-conversion'), ('optional dynamic', 'optional-of-dynamic'),
                      ('static/limited array of dynamic', 'fixed-array-of-dynamic'),
                      ('array with unlimited', 'array-of-unlimited'), ('unlimited field is not the last', 'unlimited-not-last'),
                      ('dynamic types not allowed in union', 'union-arm-dynamic'), ('overflow', 'overflow'),
                      ('duplicate', 'duplicate'), ('names overlap', 'duplicate'), ('redefinition', 'redefinition'),
                      ('redeclar', 'redefinition'), ('not found in the object', 'sizer-missing'),
                      ('must be placed before', 'sizer-after'), ('bound to', 'sizer-type'),
                      ('out of', 'value-out-of-range'), ('zero-size', 'zero-size-array'), ('negative', 'negative-size')):
        if pat in m:
            return '%s:%s' % (key, name)
    return '%s:other' % key


def run_valid(acc, wd, idx, sch, names, tags):
    text = sch.to_prophy()
    res = backends(acc, wd, idx, text, sch, names)
    acc.ev()
    acc.count('valid_schemas')
    acc.count('types_in_valid_schemas', len(names))
    acc.sig(('valid', tags, tuple(sorted(res.items()))[:1], len(names), hash(text) % 100000))
    bad = [(k, v) for k, v in res.items() if v not in ('ok', 'not-required')]
    if not bad:
        acc.count('valid_schemas_usable_everywhere')
        if len(acc.p['samples']) < 1:
            acc.sample({'schema': text[:1500], 'backends': res})
        return
    k, v = bad[0]
    if k == 'prophyc':
        mech = 'valid-schema-rejected-by-prophyc'
    else:
        mech = 'accepted-but-unusable:' + classify_backend_error(k, v)
    # shrink: find one offending type's closure for the witness
    acc.violation(PROP, mech, {'schema': text[:6000], 'backends': res, 'tags': tags})


def run_valid_text(acc, wd, idx, tag, text):
    res = backends(acc, wd, idx, text)
    acc.ev()
    acc.count('valid_schemas')
    acc.count('legal_oddities')
    acc.sig(('valid-text', tag))
    bad = [(k, v) for k, v in res.items() if v not in ('ok', 'not-required')]
    if not bad:
        acc.count('valid_schemas_usable_everywhere')
        return
    k, v = bad[0]
    mech = 'valid-schema-rejected-by-prophyc' if k == 'prophyc' else 'accepted-but-unusable:' + classify_backend_error(k, v)
    acc.violation(PROP, mech + ':' + tag, {'schema': text, 'backends': res, 'tags': [tag]})


def run_breaker(acc, wd, idx, cls, body, prelude_sch, rng):
    text = (prelude_sch.to_prophy() if prelude_sch is not None else '') + PRELUDE + body + '\n'
    d = os.path.join(wd, 'r%d' % idx)
    os.makedirs(d)
    src = os.path.join(d, 'sch.prophy')
    with open(src, 'w') as f:
        f.write(text)
    exc, _, res = pc.run_main(['--quiet', '--void_out', src])
    acc.ev()
    acc.count('rule_breakers')
    acc.feature('class:' + cls)
    outcome = pc.classify(exc)
    acc.sig((cls, body, outcome))
    wit = {'rule_class': cls, 'breaker': body, 'schema': text[-2500:], 'outcome': outcome,
           'exception': None if exc is None else '%s: %s' % (type(exc).__name__, str(exc)[:500])}
    if outcome == 'ok':
        res = backends(acc, wd, 100000 + idx, text, want_cpp=True)
        wit['backends'] = res
        worst = [(k, v) for k, v in res.items() if v not in ('ok', 'not-required')]
        tail = (':then-' + classify_backend_error(*worst[0])) if worst else ':and-all-back-ends-produce-output'
        acc.violation(PROP, 'rule-breaker-accepted:%s%s' % (cls, tail), wit)
        return
    if outcome == 'project' and str(exc).strip():
        acc.count('rule_breakers_rejected_by_project_exception_without_position')
        return
    if outcome != 'designed':
        acc.violation(PROP, 'rule-breaker-not-rejected-by-a-diagnostic:%s:%s' % (cls, type(exc).__name__), wit)
        return
    msg = str(exc)
    nlines = text.count('\n')
    breaker_line = nlines    # body is the last line
    ms = DIAG_RE.findall(msg)
    if not ms:
        acc.violation(PROP, 'diagnostic-without-file-and-line:%s' % cls, wit)
        return
    acc.count('rule_breakers_rejected_with_position')
    if not any(int(l) == breaker_line for l, c in ms):
        acc.count('diagnostic_line_is_not_the_breaker_line')
    if len(acc.p['samples']) < 3:
        acc.sample({'rule_class': cls, 'breaker': body, 'diagnostic': msg[-300:]})


def run_shard(spec):
    acc = Acc()
    rng = random.Random(spec['seed'])
    with C.Workdir() as wd:
        if spec['kind'] == 'replay':
            ex = spec['extra']
            if 'breaker' in ex:
                run_breaker(acc, wd, 0, ex['rule_class'], ex['breaker'], None, rng)
            else:
                acc.p['inconclusive'] = 'replay of valid-schema witnesses: compile witness["schema"] with prophyc by hand'
        elif spec['kind'] == 'valid':
            for k in range(spec['nschemas']):
                sch = S.random_schema(random.Random(spec['seed'] * 100 + k), cpp_full=(k % 2 == 0))
                names = [d.name for d in sch.composites()]
                run_valid(acc, wd, k, sch, names, 'rand')
        elif spec['kind'] == 'valid-text':
            for k, (tag, text) in enumerate(ODDITIES):
                run_valid_text(acc, wd, 500 + k, tag, text + '\n')
        elif spec['kind'] == 'valid-seq':
            sp = dict(spec)
            sp['kind'] = spec['kind2']
            sch, names, tagmap = CC.build_schema(sp)
            run_valid(acc, wd, 0, sch, names, 'seq')
        else:
            k = 0
            for rnd in range(spec['rounds']):
                prelude = S.random_schema(random.Random(spec['seed'] * 10 + rnd), ntypes=rng.randint(1, 5)) if rnd else None
                for i, (cls, body) in enumerate(BREAKERS):
                    if i % spec['of'] == spec['index']:
                        k += 1
                        run_breaker(acc, wd, k, cls, body, prelude, rng)
    return acc.done()


def finish(ctx, merged, specs):
    if specs and specs[0]['kind'] == 'replay':
        return
    classes = set(c for c, _ in BREAKERS)
    missing = ['class:' + c for c in classes if 'class:' + c not in merged['features']]
    for k in ('valid_schemas', 'rule_breakers'):
        if not merged['counters'].get(k):
            missing.append(k)
    if missing and not merged['inconclusive']:
        merged['inconclusive'] = 'coverage floor not met: %s' % missing
