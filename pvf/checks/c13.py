"""C13 - prophyc always terminates with outputs or a designed diagnostic (DESIGN 3/C13)."""
import os
import random
import re

from .. import schema as S, pc, badinputs as B
from ..harness import Acc
from . import common as C

PROP = 'C13'
RULE = ("prophyc.main(args) is run in-process under a sys.monitoring LINE-event budget (20x a calibration compile + 2000 "
        "per input byte) and a 40 s CPU-time timer (ITIMER_VIRTUAL: loops below the Python level, e.g. a backtracking "
        "regular expression, produce no line events) on token-level corruptions, hostile constant expressions and structural edits of valid prophy "
        "schemas, malformed/cyclic isar XML, bad patch files, missing/cyclic/diamond includes and bad option "
        "combinations; the answer is classified ok (all requested outputs must exist) / designed (ProphycError, "
        "SystemExit) / project exception / library exception / internal built-in exception / budget exhausted; the "
        "last two are violations. A sample is also run through the CLI (exit status in {0,1}, non-empty stderr on "
        "failure, no traceback). distinct = (input family, outcome class, exception type/diagnostic shape)")
ASSUMPTIONS = [
    "'terminates within bounded time' is decided on line-event counts and on consumed CPU time of the process (valid "
    "compiles of these inputs take well under a second of it), never on wall-clock",
    "project exception classes (prophyc.*), bare Exception from prophyc/patch.py and library exceptions "
    "(xml ParseError, OSError) are tolerated and counted; built-in exception types escaping main() are violations",
    "text inputs are valid UTF-8",
]
OUTS = (('--python_out', ['.py']), ('--cpp_out', ['.pp.hpp', '.pp.cpp']), ('--cpp_full_out', ['.ppf.hpp', '.ppf.cpp']))
POS_RE = re.compile(r'^(prophyc: error: )?(?P<file>.+?):(?P<line>\d+):(?P<col>\d+): error: .+')


def shards(ctx):
    n = ctx.pick(16, 48)
    per = ctx.pick(90, 1400)
    return [{'kind': 'bad', 'seed': ctx.seed * 1000 + i, 'n': per, 'index': i, 'of': n} for i in range(n)]


def replay_spec(ctx, witness):
    return {'kind': 'replay', 'seed': 0, 'extra': witness}


def run_one(acc, stepper, calib, wd, idx, family, text, fmt='prophy', patch=None, files=None, args=None, cli=False,
            rng=None):
    """Compile one input. args overrides the whole command line (option tests)."""
    d = os.path.join(wd, 'case%d' % idx)
    out = os.path.join(d, 'out')
    os.makedirs(out)
    ext = '.prophy' if fmt == 'prophy' else '.xml'
    main = os.path.join(d, 'sch' + ext)
    with open(main, 'w', encoding='utf-8') as f:
        f.write(text)
    for rel, t in (files or {}).items():
        p = os.path.join(d, rel)
        if not os.path.isdir(os.path.dirname(p)):
            os.makedirs(os.path.dirname(p))
        with open(p, 'w', encoding='utf-8') as f:
            f.write(t)
    outopt, exts = OUTS[idx % 3]
    if args is None:
        a = ['--quiet', outopt, out]
        if fmt == 'isar':
            a.insert(0, '--isar')
        if patch is not None:
            pp = os.path.join(d, 'sch.patch')
            with open(pp, 'w', encoding='utf-8') as f:
                f.write(patch)
            a += ['--patch', pp]
        a.append(main)
    else:
        a = [x.replace('{main}', main).replace('{out}', out).replace('{dir}', d) for x in args]
    size = len(text.encode('utf-8')) + sum(len(t) for t in (files or {}).values()) + len(patch or '')
    budget = 20 * calib + 2000 * size
    exc, steps, res = pc.run_main(a, stepper, budget)
    cls = pc.classify(exc)
    acc.ev()
    acc.count('family:' + family.split(':')[0])
    acc.count('outcome:' + cls)
    acc.maxi('max_steps_over_budget_permille', int(1000.0 * steps / budget))
    shape = type(exc).__name__ if exc is not None else 'ok'
    acc.sig((family, cls, shape))

    def witness(**kw):
        wit = {'family': family, 'format': fmt, 'input': text[:4000], 'patch': patch, 'files': files, 'args': a,
               'outcome': cls, 'exception': None if exc is None else '%s: %s' % (type(exc).__name__, str(exc)[:500]),
               'steps': steps, 'budget': budget}
        wit.update(kw)
        return wit

    if cls == 'hang':
        acc.violation(PROP, 'does-not-terminate-within-step-budget@%s' % exc.where.split('(')[-1].rstrip(')'),
                      witness(where=exc.where))
    elif cls == 'internal':
        import traceback
        tb = traceback.extract_tb(exc.__traceback__)
        where = ''
        for fr in reversed(tb):
            if '/prophyc/' in fr.filename or '/prophy/' in fr.filename:
                where = '%s:%s' % (os.path.basename(fr.filename), fr.name)
                break
        mech = 'internal-exception-escapes:%s@%s' % (type(exc).__name__, where)
        files_in_tb = [os.path.basename(f.filename) for f in tb[-4:]]
        if fmt == 'isar' and isinstance(exc, ValueError) and str(exc).startswith('Duplicate Enum value'):
            mech = 'isar-duplicate-enum-value-reported-as-ValueError'
        elif (fmt == 'isar' and isinstance(exc, (TypeError, AttributeError, KeyError)) and where.startswith('isar.py:')):
            mech = 'isar-missing-or-unknown-attribute-crashes-the-parser'
        elif fmt == 'isar' and '/generators/' in tb[-1].filename:
            mech = 'isar-or-patched-model-is-not-validated-and-crashes-the-generator'
        acc.violation(PROP, mech,
                      witness(traceback=[(os.path.basename(f.filename), f.lineno, f.name) for f in tb[-6:]]))
    elif cls == 'ok':
        if args is None:
            missing = [e for e in exts if not os.path.exists(os.path.join(out, 'sch' + e))]
            if missing:
                acc.violation(PROP, 'success-without-requested-output', witness(missing=missing))
        elif '{main}' in args:
            # option cases: every output option that names the output directory has to leave its files there
            missing = []
            for opt, es in OUTS + (('--prophy_out', ['.prophy']),):
                if any(x == opt and y == '{out}' for x, y in zip(args, args[1:])):
                    missing += [e for e in es if not os.path.exists(os.path.join(out, 'sch' + e))]
            if any(x == '{out}' for x in args):
                acc.count('option_cases_with_outputs_checked')
            if missing:
                acc.violation(PROP, 'success-without-requested-output', witness(missing=missing))
    elif cls == 'designed' and fmt == 'prophy' and args is None and not isinstance(exc, SystemExit):
        msg = str(exc)
        lines = [ln for ln in msg.split('\n') if ln]
        nlines = text.count('\n') + 1
        positional = [POS_RE.match(ln) for ln in lines]
        if any(positional):
            acc.count('positional_diagnostics')
            for ln, m in zip(lines, positional):
                if not m:
                    continue
                if os.path.basename(m.group('file')) == 'sch.prophy':
                    if not (1 <= int(m.group('line')) <= nlines + 1) or int(m.group('col')) < 0:
                        acc.violation(PROP, 'diagnostic-position-out-of-range', witness(line=ln, lines_in_file=nlines))
                        break
        elif not msg.strip():
            acc.violation(PROP, 'empty-diagnostic', witness())
        else:
            acc.count('non_positional_diagnostics')
    if cli and cls != 'hang':
        rc, so, se = pc.run_cli(a, cwd=d)
        acc.count('cli_runs')
        if rc is None:
            acc.p['inconclusive'] = 'CLI watchdog fired'
        elif rc not in (0, 1) or 'Traceback' in se or (rc != 0 and not se.strip()):
            acc.violation(PROP, 'cli-answer-malformed', witness(rc=rc, stderr=se[-800:]))
        elif (rc == 0) != (cls == 'ok'):
            acc.violation(PROP, 'cli-and-main-disagree', witness(rc=rc, stderr=se[-800:]))
    if len(acc.p['samples']) < 3 and cls == 'designed' and family.startswith('replace'):
        acc.sample({'family': family, 'input': text[:600], 'outcome': cls, 'diagnostic': str(exc)[:300], 'steps': steps})
    return cls


def option_cases():
    return [
        ('options:none', []),
        ('options:no-input', ['--python_out', '{out}']),
        ('options:no-output', ['{main}']),
        ('options:void', ['--void_out', '{main}']),
        ('options:isar-and-sack', ['--isar', '--sack', '--python_out', '{out}', '{main}']),
        ('options:S-without-sack', ['-S', '{main}', '--python_out', '{out}', '{main}']),
        ('options:version', ['--version']),
        ('options:help', ['--help']),
        ('options:unknown', ['--frobnicate', '{main}']),
        ('options:missing-outdir', ['--python_out', '{dir}/nope', '{main}']),
        ('options:missing-input', ['--python_out', '{out}', '{dir}/nope.prophy']),
        ('options:input-is-dir', ['--python_out', '{out}', '{dir}']),
        ('options:python-out-is-a-file', ['--python_out', '{main}', '{main}']),
        ('options:cpp-out-is-a-file', ['--cpp_out', '{main}', '{main}']),
        ('options:cpp-full-out-is-a-file', ['--cpp_full_out', '{main}', '{main}']),
        ('options:include-dir-is-a-file', ['-I', '{main}', '--python_out', '{out}', '{main}']),
        ('options:empty-out', ['--python_out', '', '{main}']),
        ('options:missing-include-dir', ['-I', '{dir}/nope', '--python_out', '{out}', '{main}']),
        ('options:missing-patch', ['--patch', '{dir}/nope.patch', '--python_out', '{out}', '{main}']),
        ('options:out-twice', ['--python_out', '{out}', '--python_out', '{out}', '{main}']),
        ('options:all-outs', ['--python_out', '{out}', '--cpp_out', '{out}', '--cpp_full_out', '{out}', '--prophy_out',
                              '{out}', '{main}']),
        ('options:same-input-twice', ['--python_out', '{out}', '{main}', '{main}']),
        ('options:quiet-only', ['--quiet']),
        ('options:patch-on-prophy', ['--patch', '{main}', '--python_out', '{out}', '{main}']),
        ('options:isar-on-prophy-text', ['--isar', '--python_out', '{out}', '{main}']),
        ('options:sack', ['--sack', '--python_out', '{out}', '{main}']),
    ]


def out_combo_cases():
    """Every combination of two or more output options, in both orders of the pair: each requested output has to be
    written (the files are looked for after a successful run)."""
    import itertools
    opts = ['--python_out', '--cpp_out', '--cpp_full_out', '--prophy_out']
    out = []
    for r in (2, 3, 4):
        for combo in itertools.combinations(opts, r):
            for order in (combo, tuple(reversed(combo))):
                a = []
                for o in order:
                    a += [o, '{out}']
                out.append(('options:outs-' + '+'.join(o.strip('-').replace('_out', '') for o in order), a + ['{main}']))
    return out


def random_include_cycles(rng):
    """Include cycles of 1..4 prophy files in random directories whose include lines are spelled with redundant path
    components ('./', 'dir/../', through -I): the spelled path of the same file differs on every lap."""
    out = []
    for _ in range(2):
        n = rng.randint(1, 4)
        dirs = [rng.choice(['', '', 'sub', 'sub/deep', 'other']) for _ in range(n)]
        names = ['cy%d.prophy' % i for i in range(n)]
        rel = [os.path.join(d, nm) if d else nm for d, nm in zip(dirs, names)]
        files = {}
        for i in range(n):
            j = (i + 1) % n
            target = os.path.relpath(rel[j], dirs[i] or '.')
            style = rng.randrange(4)
            if style == 0:
                target = './' + target
            elif style == 1:
                target = ('./' * rng.randint(2, 3)) + target
            elif style == 2:
                here = os.path.basename(dirs[i]) if dirs[i] else None
                target = ('../%s/' % here if here else './') + target
            files[rel[i]] = '#include "%s"\nstruct C%d { u8 x; };\n' % (target, i)
        entry = rng.choice(['', './', 'sub/../']) + rel[0]
        if entry.startswith('sub/') and 'sub' not in ''.join(dirs):
            entry = rel[0]
        main = '#include "%s"\nstruct T { u8 t; };\n' % entry
        out.append(('include-cycle:%d' % n, main, files))
    # a file including itself / the main file by another spelling
    out.append(('include-cycle:self', '#include "./sch.prophy"\nstruct T { u8 t; };\n', {}))
    return out


def include_cases():
    a = 'struct A { u8 x; };\n'
    return [
        ('include:diamond', '#include "l.prophy"\n#include "r.prophy"\nstruct T { L l; R r; };',
         {'l.prophy': '#include "base.prophy"\nstruct L { A a; };', 'r.prophy': '#include "base.prophy"\nstruct R { A a; };',
          'base.prophy': a}),
        ('include:cycle', '#include "a.prophy"\nstruct T { u8 t; };',
         {'a.prophy': '#include "b.prophy"\nstruct A { u8 x; };', 'b.prophy': '#include "a.prophy"\nstruct B { u8 x; };'}),
        ('include:back-to-main', '#include "a.prophy"\nstruct T { u8 t; };',
         {'a.prophy': '#include "sch.prophy"\nstruct A { u8 x; };'}),
        ('include:twice', '#include "a.prophy"\n#include "a.prophy"\nstruct T { A a; };', {'a.prophy': a}),
        ('include:subdir', '#include "sub/a.prophy"\nstruct T { A a; };', {'sub/a.prophy': a}),
        ('include:error-inside', '#include "a.prophy"\nstruct T { u8 t; };', {'a.prophy': 'struct A { u8 x };'}),
        ('include:redefinition', '#include "a.prophy"\nstruct A { u8 y; };', {'a.prophy': a}),
        ('include:missing-nested', '#include "a.prophy"\nstruct T { u8 t; };', {'a.prophy': '#include "nope.prophy"\n' + a}),
    ]


def random_cyclic_isar(rng):
    """isar definition sets with a dependency cycle plus definitions that merely USE a cycle member, in random order
    (a sort that only notices a cycle when the node it is placing belongs to it never terminates on these)."""
    from .c15 import gen_dag
    out = []
    for _ in range(2):
        sch, deps = gen_dag(rng, rng.randint(4, 9))
        structs = [d for d in sch.defs if d.kind == 'struct']
        if len(structs) < 2:
            continue
        a, b = rng.sample(structs, 2)
        early, late = (a, b) if sch.defs.index(a) < sch.defs.index(b) else (b, a)
        early.members[0].type = late.name          # back edge: early -> late (late may already reach early, or not)
        early.members[0].kind = S.PLAIN
        late.members[-1].type = early.name         # and late -> early closes the cycle for sure
        late.members[-1].kind = S.PLAIN
        late.members[-1].size_text = None
        names = [d.name for d in sch.defs]
        rng.shuffle(names)
        try:
            xml, _ = S.to_isar(sch, order=names)
        except Exception:  # noqa
            continue
        out.append(('isar-random-cycle', xml))
    return out


def random_duplicate_isar(rng):
    """isar definition sets that reuse names: several typedefs/structs/enums called the same, referring to each other
    by name (the isar front-end keeps all of them; name lookups see the last one, the sort sees the first)."""
    out = []
    for _ in range(3):
        pool = ['A', 'B', 'C', 'D'][:rng.randint(2, 4)]
        items = []
        for i in range(rng.randint(3, 8)):
            x = rng.choice(pool)
            r = rng.random()
            if r < 0.45:
                items.append('<typedef name="%s" type="%s"/>' % (x, rng.choice(pool)))
            elif r < 0.7:
                items.append('<typedef name="%s" primitiveType="32 bit integer unsigned"/>' % x)
            elif r < 0.8:
                items.append('<struct name="%s"><member name="m" type="%s"/><member name="k" type="u8"/></struct>'
                             % (x, rng.choice(pool)))
            elif r < 0.88:
                items.append('<union name="%s"><member name="m" type="%s" discriminatorValue="1"/>'
                             '<member name="k" type="u8" discriminatorValue="2"/></union>' % (x, rng.choice(pool)))
            else:
                items.append('<enum name="%s"><enum-member name="%s_E%d" value="1"/></enum>' % (x, x, i))
        items.append('<struct name="User"><member name="m" type="%s"/><member name="n" type="%s">'
                     '<dimension isVariableSize="true"/></member></struct>' % (rng.choice(pool), rng.choice(pool)))
        items.append('<union name="UserU"><member name="m" type="%s" discriminatorValue="1"/></union>' % rng.choice(pool))
        out.append(('isar-duplicate-names', '<x>\n' + '\n'.join(items) + '\n</x>\n'))
    return out


def random_isar_includes(rng):
    """Two isar files, the main one including the other: typedefs, constants and structs whose names and references
    cross the file boundary in both directions (a name used in the included file may only exist in the includer),
    constants whose value is an expression over type names or over each other."""
    out = []
    for _ in range(2):
        pool = ['M', 'N', 'P'][:rng.randint(2, 3)]
        parts = {'inc': [], 'main': []}
        for i in range(rng.randint(3, 7)):
            x = rng.choice(pool)
            r = rng.random()
            if r < 0.4:
                item = '<typedef name="%s" type="%s"/>' % (x, rng.choice(pool))
            elif r < 0.55:
                item = '<typedef name="%s" primitiveType="16 bit integer unsigned"/>' % x
            elif r < 0.8:
                item = '<constant name="K%d" value="%s"/>' % (i, rng.choice(['%s + 1', '%s', '2 * %s', 'K0 + %s', '%s * K1']) %
                                                                rng.choice(pool + ['K0', 'K1', 'K%d' % i]))
            else:
                item = ('<struct name="S%d"><member name="m" type="%s"/><member name="a" type="u8"><dimension size="%s"/>'
                        '</member></struct>' % (i, rng.choice(pool), rng.choice(['K0', 'K1', '3'] + pool)))
            parts[rng.choice(['inc', 'main'])].append(item)
        main = ('<x xmlns:xi="http://www.w3.org/2001/XInclude">\n<xi:include href="inc.xml"/>\n%s\n</x>\n'
                % '\n'.join(parts['main']))
        out.append(('isar-include-cross-references', main, {'inc.xml': '<x>\n%s\n</x>\n' % '\n'.join(parts['inc'])}))
    return out


def run_shard(spec):
    acc = Acc()
    stepper = pc.Stepper()
    try:
        with C.Workdir() as wd:
            # calibration: a valid compile in this worker (parser construction included)
            calib_sch = S.random_schema(random.Random(1))
            cd = os.path.join(wd, 'calib')
            os.makedirs(cd)
            with open(os.path.join(cd, 'c.prophy'), 'w') as f:
                f.write(calib_sch.to_prophy())
            exc, calib, _ = pc.run_main(['--quiet', '--python_out', cd, os.path.join(cd, 'c.prophy')], stepper, 1 << 60)
            if exc is not None:
                acc.p['inconclusive'] = 'calibration compile failed: %r' % exc
                return acc.done()
            acc.maxi('calibration_steps', calib)
            if spec['kind'] == 'replay':
                ex = spec['extra']
                run_one(acc, stepper, calib, wd, 0 if 'python_out' in ' '.join(ex['args']) else
                        (1 if '--cpp_out' in ex['args'] else 2), ex['family'], ex['input'], ex.get('format', 'prophy'),
                        ex.get('patch'), ex.get('files'),
                        dict(option_cases() + out_combo_cases()).get(ex['family']))
                return acc.done()
            rng = random.Random(spec['seed'])
            idx = [0]

            hangs = {}

            def go(family, text, **kw):
                idx[0] += 1
                fam0 = family.split(':')[0]
                if hangs.get(fam0, 0) >= 2:
                    # a family that ran into the step budget twice in this worker is reported already; every further
                    # case would burn the whole budget again and the worker would not finish
                    acc.count('cases_skipped_after_two_budget_overruns_of_their_family')
                    return 'skipped'
                cls = run_one(acc, stepper, calib, wd, idx[0] * spec['of'] + spec['index'], family, text,
                              cli=(rng.random() < 0.03), **kw)
                if cls == 'hang':
                    hangs[fam0] = hangs.get(fam0, 0) + 1
                return cls
            # fixed lists are spread over the shards
            fixed = ([('structural:' + n, t, {}) for n, t in B.STRUCTURAL] +
                     [(n, t, {'fmt': 'isar'}) for n, t in B.ISAR] +
                     [(n, B.PATCH_BASE_ISAR, {'fmt': 'isar', 'patch': p}) for n, p in B.PATCHES] +
                     [(n, t, {'files': f}) for n, t, f in include_cases()] +
                     [(n, 'struct S { u8 a; };\n', {'args': a}) for n, a in option_cases() + out_combo_cases()])
            for k, (fam, text, kw) in enumerate(fixed):
                if k % spec['of'] == spec['index']:
                    go(fam, text, **kw)
            # generated corruptions
            while idx[0] < spec['n']:
                base = S.random_schema(rng, ntypes=rng.randint(2, 7))
                text = base.to_prophy()
                for fam, t in B.token_corruptions(text, rng, 6) + B.expression_injections(text, rng, 3):
                    go(fam, t)
                xml, patch = S.to_isar(base)
                for fam, t in B.token_corruptions(xml, rng, 2):
                    go('isar-' + fam, t, fmt='isar', patch=patch)
                for fam, t in B.expression_injections_xml(xml, rng, 2):
                    go(fam, t, fmt='isar', patch=patch)
                if patch:
                    for fam, t in B.token_corruptions(patch, rng, 2):
                        go('patch-' + fam, xml, fmt='isar', patch=t)
                for fam, t in random_cyclic_isar(rng) + random_duplicate_isar(rng):
                    go(fam, t, fmt='isar')
                for fam, t, fl in random_isar_includes(rng):
                    go(fam, t, fmt='isar', files=fl)
                for fam, t, fl in random_include_cycles(rng):
                    go(fam, t, files=fl)
    finally:
        stepper.close()
    return acc.done()


def finish(ctx, merged, specs):
    if specs and specs[0]['kind'] == 'replay':
        return
    need = ['outcome:ok', 'outcome:designed', 'family:structural', 'family:replace-token', 'family:expression',
            'family:isar-random-cycle', 'family:isar-duplicate-names', 'family:isar-expression', 'family:isar-include-cross-references',
            'family:options', 'family:include', 'family:include-cycle', 'option_cases_with_outputs_checked', 'cli_runs', 'positional_diagnostics']
    missing = [f for f in need if not merged['counters'].get(f)]
    if missing and not merged['inconclusive']:
        merged['inconclusive'] = 'coverage floor not met: %s' % missing
