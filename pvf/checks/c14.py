"""C14 - constant expressions denote one integer, the same in every back-end (DESIGN 3/C14)."""
import os
import random
import subprocess

from .. import schema as S, wire as W, pyrt, pc, cppdrv, expr as E
from ..harness import Acc
from . import common as C

PROP = 'C14'
RULE = ("random expression trees (depth <= 5) over decimal/hex/octal literals, + - * / << >>, unary minus and earlier "
        "constant/enumerator names, rendered with minimal and with random redundant parentheses, are used as constants, "
        "enumerators, fixed/limited array sizes and discriminators in prophy text (also across an include) and in isar "
        "XML. The integer is known from the tree before any text exists. Compared with it: values in prophyc's model "
        "nodes (value, size, numeric_size, discriminator), prophyc.calc.eval of the same text (decimal/hex only), the "
        "imported Python module (constants, enumerators, len() of fixed arrays, limits of limited arrays, "
        "discriminators), values printed by a g++-compiled program over the generated C++ headers (enum values, array "
        "extents, discriminators) and the model's struct sizes. distinct = distinct (role, operator multiset, depth)")
ASSUMPTIONS = [
    "precedence of the language: + - < * / < << >> < unary minus, left-associative; '/' floors, generated only with a "
    "non-negative dividend and a positive divisor; shift counts 0..24 on non-negative operands; |values| < 2^40",
    "isar expressions avoid '/', octal and negative operands (outside what both evaluators read)",
]
TIMEOUT = {'quick': 1500, 'thorough': 10800}
WORKERS = 10
ISAR_MECH = 'isar-expression-text-reevaluated-by-the-host-language'
SIBLING_MECH = 'isar-enumerator-naming-a-sibling-is-pasted-into-the-python-enum-where-the-name-is-not-bound'


def shards(ctx):
    n = ctx.pick(10, 120)
    return [{'kind': 'expr', 'seed': ctx.seed * 1000 + i, 'fmt': 'isar' if i % 4 == 3 else 'prophy',
             'split': i % 4 == 1, 'redundant': 0.0 if i % 2 == 0 else 0.3} for i in range(n)]


def replay_spec(ctx, witness):
    return {'kind': 'replay', 'seed': witness.get('seed', 0), 'fmt': witness.get('format', 'prophy'),
            'split': witness.get('split', False), 'redundant': witness.get('redundant', 0.0)}


def opsig(t):
    ops = []
    depth = [0]

    def walk(n, d):
        depth[0] = max(depth[0], d)
        if isinstance(n, E.Bin):
            ops.append(n.op)
            walk(n.a, d + 1)
            walk(n.b, d + 1)
        elif isinstance(n, E.Neg):
            ops.append('neg')
            walk(n.a, d + 1)
        elif isinstance(n, E.Name):
            ops.append('name')
        elif n.base != 10:
            ops.append('base%d' % n.base)
    walk(t, 0)
    return tuple(sorted(ops)), depth[0]


# some names consist of hexadecimal digits only: a name is a name, whatever it looks like
CONST_NAMES = ['K0', 'C0', 'K2', 'BEEF', 'A1', 'K5', 'FACE', 'K7', 'DEAD', 'K9', 'K10', 'K11', 'K12']
ENUMERATOR_NAMES = ['EN_0', 'AD', 'EN_2', 'F00D']
SIBLING_NAMES = ENUMERATOR_NAMES + ['EM_A', 'EM_B', 'EM_C']


def build_schema(rng, fmt, redundant, neutral=True):
    """-> (schema IR with texts, items) items: list of dicts {role, name, tree, value, text, ...}
    isar + neutral: only expressions whose value does not depend on the precedence of << >> relative to + - * /
    and whose intermediate values fit a 32-bit int (what Python and C++ compute from the same text)."""
    isar = fmt == 'isar'
    kw = dict(allow_octal=not isar, allow_neg=not isar)
    names = []
    names_big = []
    items = []
    sch = S.Schema()

    def mk(role, lo=None, hi=None, depth=None, more=()):
        for _ in range(80):
            t, v = E.gen_valid(rng, depth if depth is not None else rng.randint(1, 5), names + list(more), lo, hi, **kw)
            if isar and _has_div(t):
                continue
            txt = E.render(t, rng, redundant)
            if isar and neutral and (E.host_value_32bit(t, txt) != v or E.max_intermediate(t) >= (1 << 31)):
                continue
            return t, v, txt
        t = E.Lit(lo or 1, 10)
        return t, t.value, t.text()

    for i in range(6):
        t, v, txt = mk('const', -(1 << 30) if not isar else 0, 1 << 31) if rng.random() < 0.5 else mk('const')
        if isar and not neutral and i == 0:
            # canary of the recorded finding: 1 + 2 << 3 is 17 in prophyc's grammar, 24 in Python and C++
            t = E.Bin('+', E.Lit(1, 10), E.Bin('<<', E.Lit(2, 10), E.Lit(3, 10)))
            v, txt = E.evaluate(t), E.render(t, rng, 0.0)
        if isar and v < 0:
            t, v, txt = mk('const', 0, 1 << 31)
        name = CONST_NAMES[i]
        sch.add(S.Const(name, v, txt))
        items.append({'role': 'constant', 'name': name, 'tree': t, 'value': v, 'text': txt})
        names.append((name, v))
    if isar:
        # plain negative literals (decimal and hex) as constant values, and a constant built on one
        for nm, val, txt in (('KNEG', -rng.randint(1, 99), None), ('KNEGX', -rng.randint(16, 255), 'hex')):
            text = '-0x%X' % -val if txt else '%d' % val
            tree = E.Neg(E.Lit(-val, 16 if txt else 10))
            sch.add(S.Const(nm, val, text))
            items.append({'role': 'constant', 'name': nm, 'tree': tree, 'value': val, 'text': text})
        base = items[-2]
        add = rng.randint(100, 200)
        tree = E.Bin('+', E.Name('KNEG', base['value']), E.Lit(add, 10))
        sch.add(S.Const('KNEGP', base['value'] + add, 'KNEG + %d' % add))
        items.append({'role': 'constant', 'name': 'KNEGP', 'tree': tree, 'value': base['value'] + add, 'text': 'KNEG + %d' % add})
    members = []
    used = set()
    for i in range(4):
        for _ in range(30):
            # an enumerator may be built on the earlier enumerators of its own enum (in both front-ends)
            t, v, txt = mk('enum', 0, (1 << 32) - 1, more=[(m[0], m[1]) for m in members])
            if v not in used:
                break
        if isar and not neutral and i == 2 and members[1][1] + 1 not in used:
            # canary of the recorded finding: an enumerator built on its sibling
            t = E.Bin('+', E.Name(members[1][0], members[1][1]), E.Lit(1, 10))
            v, txt = members[1][1] + 1, '%s + 1' % members[1][0]
        used.add(v)
        name = ENUMERATOR_NAMES[i]
        members.append((name, v, txt))
        items.append({'role': 'enumerator', 'name': name, 'tree': t, 'value': v, 'text': txt})
    sch.add(S.Enum('EN', members))
    if not isar:
        names.extend((m[0], m[1]) for m in members)   # isar: constants naming enumerators are C15's subject
    # later constants may use enumerators
    for i in range(6, 9):
        t, v, txt = mk('const', 0, 1 << 31)
        alias = [(n, x) for n, x in names if 0 <= x < (1 << 31)]
        if alias and rng.random() < 0.4:
            # the whole value is another constant's (or enumerator's) name
            t = E.Name(*rng.choice(alias))
            v, txt = t.value, t.name
        name = CONST_NAMES[i]
        sch.add(S.Const(name, v, txt))
        items.append({'role': 'constant', 'name': name, 'tree': t, 'value': v, 'text': txt})
        names.append((name, v))
    if isar:
        # array sizes and discriminators (defined after the enum) may name enumerators in isar, too
        names.extend((m[0], m[1]) for m in members)
    if not isar:
        # 64-bit-scale constants: exact integer division is required from both evaluators
        for i in range(9, 13):
            t, v = E.gen_big(rng, [(n, x) for n, x in names if x > (1 << 40)])
            txt = E.render(t, rng, redundant)
            name = 'K%d' % i
            sch.add(S.Const(name, v, txt))
            items.append({'role': 'big-constant', 'name': name, 'tree': t, 'value': v, 'text': txt})
            names_big.append((name, v))
        # constants at and below the 32-bit signed range, down to the 64-bit one
        for j, (val, txt) in enumerate(rng.sample([(-(1 << 31), '-(1 << 31)'), (-(1 << 31), '-0x80000000'),
                                                   (-(1 << 31) - 1, '-2147483649'), (-(1 << 40), '-(1 << 40)'),
                                                   (-(1 << 63) + 1, '-(1 << 63) + 1'), (-(1 << 31) + 1, '-2147483647'),
                                                   (-(1 << 62), '-(1 << 62)')], 3)):
            name = 'KBN%d' % j
            tree = E.Neg(E.Lit(-val, 10))
            sch.add(S.Const(name, val, txt))
            items.append({'role': 'big-constant', 'name': name, 'tree': tree, 'value': val, 'text': txt})
    smem = []
    for i, (tp, kind, hi) in enumerate([('u8', S.FIXED, 24), ('u16', S.FIXED, 12), ('u32', S.LIMITED, 9),
                                        ('byte', S.FIXED, 16), ('u64', S.FIXED, 5)]):
        t, v, txt = mk('size', 1, hi)
        smem.append(S.Member('f%d' % i, tp, kind, v, size_text=txt))
        items.append({'role': 'array-size', 'name': 'SX.f%d' % i, 'member': 'f%d' % i, 'kind': kind, 'tree': t,
                      'value': v, 'text': txt})
    # a second enum whose enumerators are built on each other, used as array sizes
    a_ = rng.randint(1, 3)
    em = [('EM_A', a_, '%d' % a_), ('EM_B', a_ + 1, 'EM_A + 1'), ('EM_C', (a_ + 1) * 2, 'EM_B * 2')]
    sch.add(S.Enum('EM', em))
    for (en, ev, etxt), tree in zip(em, (E.Lit(a_, 10), E.Bin('+', E.Name('EM_A', a_), E.Lit(1, 10)),
                                         E.Bin('*', E.Name('EM_B', a_ + 1), E.Lit(2, 10)))):
        items.append({'role': 'enumerator', 'name': en, 'tree': tree, 'value': ev, 'text': etxt})
    for j, (en, ev) in enumerate((('EM_B', a_ + 1), ('EM_C', (a_ + 1) * 2))):
        smem.append(S.Member('g%d' % j, 'u16', S.FIXED, ev, size_text=en))
        items.append({'role': 'array-size', 'name': 'SX.g%d' % j, 'member': 'g%d' % j, 'kind': S.FIXED,
                      'tree': E.Name(en, ev), 'value': ev, 'text': en})
    if isar:
        # isar's two-dimensional arrays (size x size2, flattened to the product), static and limited; every dimension
        # is a name or a literal
        atoms = [(E.Name('EM_A', a_), 'EM_A'), (E.Name('EM_B', a_ + 1), 'EM_B'), (E.Lit(2, 10), '2'), (E.Lit(3, 10), '3'),
                 (E.Lit(4, 10), '4')]
        for j, (tp, kind) in enumerate((('u8', S.FIXED), ('u16', S.LIMITED))):
            (t1, x1), (t2, x2) = rng.choice(atoms), rng.choice(atoms)
            tree = E.Bin('*', t1, t2)
            v = E.evaluate(tree)
            smem.append(S.Member('h%d' % j, tp, kind, v, size_text='%s*%s' % (x1, x2), isar_dims=(x1, x2)))
            items.append({'role': 'array-size', 'name': 'SX.h%d' % j, 'member': 'h%d' % j, 'kind': kind, 'tree': tree,
                          'value': v, 'text': '%s*%s' % (x1, x2)})
    sch.add(S.Struct('SX', smem))
    arms = []
    used = set()
    for i in range(3):
        for _ in range(30):
            t, v, txt = mk('disc', 0, (1 << 31) - 1)
            if v not in used:
                break
        used.add(v)
        arms.append((v, rng.choice(['u8', 'u16', 'u32']), 'a%d' % i, txt))
        items.append({'role': 'discriminator', 'name': 'UX.a%d' % i, 'arm': 'a%d' % i, 'tree': t, 'value': v, 'text': txt})
    sch.add(S.Union('UX', arms))
    return sch, items


def _shift_right_outside_parens(text):
    depth = 0
    for i, ch in enumerate(text):
        if ch == '(':
            depth += 1
        elif ch == ')':
            depth -= 1
        elif ch == '>' and depth == 0:
            return True
    return False


def names_in(t):
    if isinstance(t, E.Name):
        return {t.name}
    if isinstance(t, E.Neg):
        return names_in(t.a)
    if isinstance(t, E.Bin):
        return names_in(t.a) | names_in(t.b)
    return set()


def _has_div(t):
    if isinstance(t, E.Bin):
        return t.op == '/' or _has_div(t.a) or _has_div(t.b)
    if isinstance(t, E.Neg):
        return _has_div(t.a)
    return False


def model_lookup(nodes):
    import prophyc.model as M
    out = {}

    def walk(lst):
        for n in lst:
            if isinstance(n, M.Include):
                walk(n.members)
            elif isinstance(n, M.Constant):
                out[('constant', n.name)] = n
            elif isinstance(n, M.Enum):
                for m in n.members:
                    out[('enumerator', m.name)] = m
            elif isinstance(n, M.Struct):
                out[('struct', n.name)] = n
                for m in n.members:
                    out[('member', n.name + '.' + m.name)] = m
            elif isinstance(n, M.Union):
                for m in n.members:
                    out[('arm', n.name + '.' + m.name)] = m
    for base, lst in nodes.items():
        walk(lst)
    return out


def cpp_values(acc, wd, gen, items, stem, full=False):
    """Compile a printer over the generated raw header (or, full=True, the header of the full codec: constants and
    enumerators only); returns {name: int}."""
    lines = ['#include <cstdio>', '#include "%s.%s.hpp"' % (stem, 'ppf' if full else 'pp'), 'int main()', '{']
    if full:
        lines.insert(2, 'using namespace prophy::generated;')
    for it in items:
        if it['role'] in ('constant', 'enumerator', 'big-constant'):
            lines.append('    printf("%s %%lld\\n", (long long)%s);' % (it['name'], it['name']))
        elif full:
            continue
        elif it['role'] == 'array-size':
            lines.append('    printf("%s %%lld\\n", (long long)(sizeof(((SX*)0)->%s) / sizeof(((SX*)0)->%s[0])));'
                         % (it['name'], it['member'], it['member']))
        else:
            lines.append('    printf("%s %%lld\\n", (long long)UX::discriminator_%s);' % (it['name'], it['arm']))
    lines += ['    return 0;', '}']
    src = os.path.join(wd, 'vals_%s%s.cpp' % (stem, '_full' if full else ''))
    with open(src, 'w') as f:
        f.write('\n'.join(lines) + '\n')
    binary = os.path.join(wd, 'vals_%s%s' % (stem, '_full' if full else ''))
    cppdrv.compile_cpp([src], binary, [gen], sanitize=False, cxx='g++')
    p = subprocess.run([binary], stdout=subprocess.PIPE, timeout=60)
    out = {}
    for ln in p.stdout.decode().split('\n'):
        a = ln.split()
        if len(a) == 2:
            out[a[0]] = int(a[1])
    return out


def isar_operator_and_include_scenario(acc, wd, rng):
    """isar only, judged on the model prophyc returns: (a) shiftLeft / bitMaskOr calls nested in themselves and in each
    other; (b) constants spread over an included file and a same-named file in a sub-directory that is reached through
    another include (limits.xml and codec/limits.xml): every constant must keep its integer, every array its extent."""
    import prophyc.model as M
    d = os.path.join(wd, 'ops')
    os.makedirs(os.path.join(d, 'codec'))
    os.makedirs(os.path.join(d, 'out'))
    a, b, c = rng.randint(1, 3), rng.randint(1, 2), rng.randint(1, 5)
    consts = [('OP_SS', 'shiftLeft(1, shiftLeft(1, %d))' % b, 1 << (1 << b)),
              ('OP_OO', 'bitMaskOr(bitMaskOr(%d, 8), 32)' % a, a | 8 | 32),
              ('OP_OS', 'bitMaskOr(shiftLeft(1, %d), shiftLeft(1, 5))' % a, (1 << a) | 32),
              ('OP_SO', 'shiftLeft(bitMaskOr(1, 2), %d)' % b, 3 << b),
              ('OP_OOO', 'bitMaskOr(bitMaskOr(bitMaskOr(1, 2), 4), %d)' % (8 * c), 7 | (8 * c))]
    root_limits = [('LIM_A', '%d' % (a + 1), a + 1), ('LIM_B', 'LIM_A * 2', 2 * (a + 1))]
    codec_limits = [('CLIM_A', '%d' % (c + 2), c + 2), ('CLIM_B', 'CLIM_A + 1', c + 3)]
    open(os.path.join(d, 'limits.xml'), 'w').write('<x>%s</x>' % ''.join('<constant name="%s" value="%s"/>' % x[:2] for x in root_limits))
    open(os.path.join(d, 'codec', 'limits.xml'), 'w').write('<x>%s</x>' % ''.join('<constant name="%s" value="%s"/>' % x[:2] for x in codec_limits))
    open(os.path.join(d, 'codec', 'x.xml'), 'w').write(
        '<x xmlns:xi="http://www.w3.org/2001/XInclude"><xi:include href="limits.xml"/>'
        '<struct name="CX"><member name="a" type="u16"><dimension size="CLIM_B"/></member></struct></x>')
    sizes = [(n, v) for n, t, v in consts + root_limits + codec_limits if 1 <= v <= 64]
    first = rng.choice(['codec/x.xml', 'limits.xml'])
    second = 'limits.xml' if first == 'codec/x.xml' else 'codec/x.xml'
    main = ('<x xmlns:xi="http://www.w3.org/2001/XInclude"><xi:include href="%s"/><xi:include href="%s"/>%s'
            '<struct name="OPS">%s</struct></x>' % (
                first, second, ''.join('<constant name="%s" value="%s"/>' % x[:2] for x in consts),
                ''.join('<member name="f%d" type="u8"><dimension size="%s"/></member>' % (i, n) for i, (n, v) in enumerate(sizes))))
    open(os.path.join(d, 'main.xml'), 'w').write(main)
    exc, _, nodes = pc.run_main(['--quiet', '--isar', '--python_out', os.path.join(d, 'out'), os.path.join(d, 'main.xml')])
    acc.ev()
    acc.count('isar_operator_and_include_scenarios')
    wit = {'format': 'isar', 'main.xml': main, 'limits.xml': open(os.path.join(d, 'limits.xml')).read(),
           'codec/limits.xml': open(os.path.join(d, 'codec', 'limits.xml')).read()}
    if exc is not None:
        acc.violation(PROP, 'well-formed-expressions-rejected:%s' % type(exc).__name__,
                      dict(wit, error='%s: %s' % (type(exc).__name__, str(exc)[:400])))
        return
    ops = [n for n in nodes['main'] if isinstance(n, M.Struct) and n.name == 'OPS'][0]
    for m, (n, v) in zip(ops.members, sizes):
        acc.count('model_values_checked')
        if m.numeric_size != v:
            acc.violation(PROP, 'model-numeric_size-value-differs:array-size', dict(wit, name=n, expected=v, got=repr(m.numeric_size)))
            return
    if ops.byte_size != sum(v for n, v in sizes):
        acc.violation(PROP, 'model-layout-size-differs', dict(wit, model=ops.byte_size, reference=sum(v for n, v in sizes)))


def run_shard(spec):
    acc = Acc()
    rng = random.Random(spec['seed'])
    fmt = spec['fmt']
    with C.Workdir() as wd:
        if fmt == 'isar' and spec['kind'] != 'replay':
            isar_operator_and_include_scenario(acc, wd, rng)
        for round_ in range(6):
            neutral = round_ != 5
            sch, items = build_schema(rng, fmt, spec['redundant'], neutral)
            sensitive = fmt == 'isar' and any(E.host_value_32bit(i['tree'], i['text']) != i['value'] or
                                              E.max_intermediate(i['tree']) >= (1 << 31) for i in items)
            d = os.path.join(wd, 'r%d' % round_)
            pkg = 'c14p%d_%d' % (os.getpid(), round_)
            pkgdir = os.path.join(d, pkg)
            os.makedirs(pkgdir)
            open(os.path.join(pkgdir, '__init__.py'), 'w').close()
            files = {}
            if fmt == 'isar':
                text, patch = S.to_isar(sch)
                main = os.path.join(d, 'sch.xml')
                args = ['--isar']
                if patch:
                    with open(os.path.join(d, 'sch.patch'), 'w') as f:
                        f.write(patch)
                    args += ['--patch', os.path.join(d, 'sch.patch')]
            else:
                main = os.path.join(d, 'sch.prophy')
                args = []
                if spec['split']:
                    first = [x.name for x in sch.defs[:4]]
                    files['inc.prophy'] = sch.to_prophy(only=set(first))
                    text = '#include "inc.prophy"\n' + sch.to_prophy(only=set(x.name for x in sch.defs) - set(first))
                else:
                    text = sch.to_prophy()
            with open(main, 'w') as f:
                f.write(text)
            for rel, t in files.items():
                with open(os.path.join(d, rel), 'w') as f:
                    f.write(t)
            extra_inputs = [os.path.join(d, rel) for rel in files]
            exc, _, nodes = pc.run_main(['--quiet'] + args + ['--python_out', pkgdir, '--cpp_out', d, '--cpp_full_out', d] +
                                        extra_inputs + [main])

            def witness(it=None, **kw):
                wit = {'format': fmt, 'seed': spec['seed'], 'split': spec['split'], 'redundant': spec['redundant'],
                       'schema': text[:5000], 'files': files}
                if it is not None:
                    wit.update({'role': it['role'], 'name': it['name'], 'expression': it['text'], 'expected': it['value']})
                wit.update(kw)
                return wit
            if exc is not None:
                acc.violation(PROP, ISAR_MECH if sensitive else 'well-formed-expressions-rejected:%s' % type(exc).__name__,
                              witness(error='%s: %s' % (type(exc).__name__, str(exc)[:600])))
                continue
            acc.count('schemas_compiled')
            ml = model_lookup(nodes)
            import importlib
            import sys
            if d not in sys.path:
                sys.path.insert(0, d)
            importlib.invalidate_caches()
            mod = None
            try:
                with pyrt.quiet():
                    mod = importlib.import_module(pkg + '.sch')
            except BaseException as e:  # noqa
                mech = ISAR_MECH if sensitive else 'python-module-does-not-import:%s' % type(e).__name__
                if (fmt == 'isar' and isinstance(e, NameError) and any(("'%s'" % n) in str(e) for n in SIBLING_NAMES) and
                        any(i['role'] == 'enumerator' and names_in(i['tree']) & set(SIBLING_NAMES) for i in items)):
                    mech = SIBLING_MECH
                acc.violation(PROP, mech, witness(error='%s: %s' % (type(e).__name__, str(e)[:400])))
            cppv = None
            try:
                cppv = cpp_values(acc, wd, d, items, 'sch')
            except cppdrv.BuildFailed as e:
                acc.violation(PROP, ISAR_MECH if sensitive else 'generated-cpp-does-not-compile', witness(error=str(e)[-800:]))
            cppf = None
            try:
                cppf = cpp_values(acc, wd, d, items, 'sch', full=True)
            except cppdrv.BuildFailed as e:
                # the full codec pastes isar size texts into template arguments (array<T, text>): a '>>' that is not
                # inside parentheses ends the argument list - the same recorded finding (text handed to the host language)
                pasted = fmt == 'isar' and any(i['role'] == 'array-size' and _shift_right_outside_parens(i['text']) for i in items)
                acc.violation(PROP, ISAR_MECH if sensitive or pasted else 'generated-cpp-full-does-not-compile',
                              witness(error='\n'.join(l for l in str(e).split('\n') if 'error' in l)[:800]))
            import prophyc.calc as calc
            known = dict((n, v) for n, v in [(i['name'], i['value']) for i in items
                                             if i['role'] in ('constant', 'enumerator', 'big-constant')])
            for it in items:
                acc.ev()
                acc.count('role:' + it['role'])
                sig, depth = opsig(it['tree'])
                acc.sig((it['role'], sig, depth))
                for o in sig:
                    acc.feature('op:' + o)
                exp = it['value']
                hostv = E.python_precedence_value(it['tree'], it['text'])
                host_differs = fmt == 'isar' and hostv != exp

                def bad(where, got):
                    if sensitive and where.startswith(('python', 'cpp')):
                        acc.violation(PROP, ISAR_MECH,
                                      witness(it, where=where, got=got, host_language_value=hostv))
                    else:
                        acc.violation(PROP, '%s-value-differs:%s' % (where, it['role']), witness(it, where=where, got=repr(got)))
                # (a) model
                if fmt == 'prophy':
                    if it['role'] in ('constant', 'big-constant'):
                        mv = ml[('constant', it['name'])].value
                    elif it['role'] == 'enumerator':
                        mv = ml[('enumerator', it['name'])].value
                    elif it['role'] == 'array-size':
                        mm = ml[('member', it['name'])]
                        mv = mm.size
                        if mm.numeric_size != exp:
                            bad('model-numeric_size', mm.numeric_size)
                    else:
                        mv = ml[('arm', it['name'])].discriminator
                    if str(mv) != str(exp):
                        bad('model', mv)
                    acc.count('model_values_checked')
                elif it['role'] == 'array-size':
                    mm = ml[('member', it['name'])]
                    if mm.numeric_size != exp:
                        bad('model-numeric_size', mm.numeric_size)
                    acc.count('model_values_checked')
                # (d) calc
                if not it['tree'].has_octal():
                    try:
                        cv = calc.eval(it['text'], dict(known))
                        if cv != exp:
                            bad('calc', cv)
                        acc.count('calc_values_checked')
                    except Exception as e:  # noqa
                        bad('calc', '%s: %s' % (type(e).__name__, e))
                # (b) python
                if mod is not None:
                    try:
                        if it['role'] in ('constant', 'enumerator', 'big-constant'):
                            pv = getattr(mod, it['name'])
                        elif it['role'] == 'array-size':
                            x = mod.SX()
                            arr = getattr(x, it['member'])
                            if it['kind'] == S.FIXED:
                                pv = len(arr)
                            else:
                                arr[:] = [0] * exp
                                pv = exp
                                try:
                                    arr.append(0)
                                    pv = 'limit-not-enforced-at-%d' % exp
                                except Exception:  # noqa
                                    pass
                        else:
                            u = mod.UX()
                            u.discriminator = it['arm']
                            pv = u.discriminator
                        if pv != exp or isinstance(pv, float):
                            bad('python', pv)
                        acc.count('python_values_checked')
                    except Exception as e:  # noqa
                        bad('python', '%s: %s' % (type(e).__name__, e))
                # (c) C++
                if cppv is not None and it['name'] in cppv:
                    if cppv[it['name']] != exp:
                        bad('cpp', cppv[it['name']])
                    acc.count('cpp_values_checked')
                if cppf is not None and it['name'] in cppf:
                    if cppf[it['name']] != exp:
                        bad('cpp-full', cppf[it['name']])
                    acc.count('cpp_full_values_checked')
            # (e) layout
            w = W.Wire(sch)
            node = ml.get(('struct', 'SX'))
            if node is not None and node.byte_size != w.tinfo('SX')[0]:
                acc.violation(PROP, 'model-layout-size-differs', witness(model=node.byte_size, reference=w.tinfo('SX')[0]))
            acc.count('layouts_checked')
            if len(acc.p['samples']) < 2:
                acc.sample({'format': fmt, 'expressions': [{'role': i['role'], 'text': i['text'], 'value': i['value']}
                                                           for i in items[:6]]})
    return acc.done()


def finish(ctx, merged, specs):
    if specs and specs[0]['kind'] == 'replay':
        return
    need = ['op:+', 'op:-', 'op:*', 'op:/', 'op:<<', 'op:>>', 'op:neg', 'op:name', 'op:base16', 'op:base8']
    missing = [f for f in need if f not in merged['features']]
    for k in ('model_values_checked', 'python_values_checked', 'cpp_values_checked', 'calc_values_checked',
              'isar_operator_and_include_scenarios'):
        if not merged['counters'].get(k):
            missing.append(k)
    if missing and not merged['inconclusive']:
        merged['inconclusive'] = 'coverage floor not met: %s' % missing
