"""C15 - definition order does not matter: output is dependency-ordered and complete (DESIGN 3/C15)."""
import itertools
import os
import random

from .. import schema as S, wire as W, pc, pyrt
from ..harness import Acc
from . import common as C

PROP = 'C15'
RULE = ("acyclic definition sets (constants, enums, typedefs, structs, unions referring to each other, incl. array sizes "
        "and discriminators naming constants and enumerators, typedef chains to composites, cross-kind dependencies that "
        "oppose isar's regrouping by element kind) are rendered as isar XML in ALL permutations when |D| <= 5 and in "
        "random permutations up to |D| = 14; prophyc runs under a line-event budget; the returned node list must be a "
        "permutation of D with every node after all its true dependencies (known from the generator), the generated "
        "Python module must import, and every type's (size, alignment, kind) must be identical across permutations and "
        "equal to the reference layout. The same for C++ headers through --sack (typedefs, enums, structs with scalar / "
        "nested / fixed-array members sized by literals and enumerators, unions) in random dependency-respecting orders. "
        "distinct = (DAG shape signature, permutation)")
ASSUMPTIONS = [
    "true dependencies come from the generator's own bookkeeping, not from prophyc.model.dependencies()",
    "sack inputs are C++: only orders in which every definition follows what it uses exist; typedefs dissolve, union "
    "arms are numbered from 0 - the prophy IR expected from a header is built on these (observed) conventions",
]
TIMEOUT = {'quick': 1500, 'thorough': 10800}


def shards(ctx):
    n = ctx.pick(16, 64)
    return [{'kind': 'dag', 'seed': ctx.seed * 1000 + i, 'small': ctx.pick(3, 10), 'large': ctx.pick(3, 12),
             'perms_large': ctx.pick(12, 60), 'sack': ctx.pick(2, 6), 'sack_perms': ctx.pick(6, 20)} for i in range(n)]


def replay_spec(ctx, witness):
    return {'kind': 'replay', 'seed': 0, 'extra': witness}


def gen_dag(rng, n):
    """IR in a valid order + true dependency map."""
    sch = S.Schema()
    deps = {}
    consts, enums, enumerators, fixed, typedefs = [], [], [], [], []
    int_typedefs, dyn_structs = [], []
    scal = ['u8', 'u16', 'u32', 'u64', 'i8', 'i32', 'r64']

    def size_ref():
        """(value, text, dep) for an array size / discriminator: literal, constant or enumerator."""
        r = rng.random()
        small = [(c, v) for c, v in consts if 1 <= v <= 6]
        smalle = [(e, en, v) for e, en, v in enumerators if 1 <= v <= 6]
        if small and r < 0.4:
            c, v = rng.choice(small)
            return v, c, c
        if smalle and r < 0.75:
            e, en, v = rng.choice(smalle)
            return v, en, e
        v = rng.randint(1, 4)
        return v, None, None

    kinds = ['const', 'enum', 'typedef', 'struct', 'union']
    for i in range(n):
        k = rng.choice(kinds if i else ['const', 'enum', 'struct'])
        name = 'N%d' % i
        if k in ('struct', 'typedef', 'union') and rng.random() < 0.12:
            # a name that merely looks like a builtin type (no wire type of that width exists)
            free = [x for x in ('u128', 'u24', 'i24', 'r8', 'r16', 'u1', 'i128') if x not in sch.by_name]
            if free:
                name = rng.choice(free)
        d = set()
        if k == 'const':
            r = rng.random()
            if len(consts) >= 2 and r < 0.2:
                # product / sum / shift of two named constants, with and without blanks around the operator
                (c1, v1), (c2, v2) = rng.sample(consts, 2)
                op = rng.choice(['*', '+', '-', '<<'])
                if op == '-' and v1 < v2:
                    (c1, v1), (c2, v2) = (c2, v2), (c1, v1)
                if op == '<<' and v2 > 8:
                    op = '+'
                val = {'*': v1 * v2, '+': v1 + v2, '-': v1 - v2, '<<': v1 << v2 if op == '<<' else 0}[op]
                sp = rng.choice(['', ' '])
                txt = rng.choice(['%s%s%s%s%s' % (c1, sp, op, sp, c2), '(%s)%s%s%s(%s)' % (c1, sp, op, sp, c2)])
                sch.add(S.Const(name, val, txt))
                d.update([c1, c2])
                consts.append((name, val))
            elif consts and r < 0.4:
                # a literal combined with one named constant; the name comes first, last, or inside parentheses
                c, v = rng.choice(consts)
                add = rng.randint(0, 3)
                form = rng.choice(['n+l', 'l+n', 'l*n', '(l+n)', 'x+n', 'n*l'])
                if form in ('l*n', 'n*l'):
                    k = rng.randint(1, 3)
                    val, txt = v * k, ('%d * %s' % (k, c) if form == 'l*n' else '%s*%d' % (c, k))
                else:
                    val = v + add
                    txt = {'n+l': '%s + %d' % (c, add), 'l+n': '%d + %s' % (add, c), '(l+n)': '(%d + %s)' % (add, c),
                           'x+n': '0x%X + %s' % (add, c)}[form]
                sch.add(S.Const(name, val, txt))
                d.add(c)
                consts.append((name, val))
            elif enumerators and r < 0.7:
                e, en, v = rng.choice(enumerators)
                sch.add(S.Const(name, v, en))
                d.add(e)
                consts.append((name, v))
            else:
                v = rng.randint(1, 6)
                sch.add(S.Const(name, v))
                consts.append((name, v))
        elif k == 'enum':
            members = []
            used = set()
            for j in range(rng.randint(1, 3)):
                if consts and rng.random() < 0.4:
                    c, v = rng.choice(consts)
                    if v in used:
                        continue
                    members.append(('%s_%d' % (name, j), v, c))
                    d.add(c)
                else:
                    v = rng.choice([x for x in range(1, 12) if x not in used])
                    members.append(('%s_%d' % (name, j), v, None))
                used.add(v)
            sch.add(S.Enum(name, members))
            enums.append(name)
            for m in members:
                enumerators.append((name, m[0], m[1]))
            fixed.append(name)
        elif k == 'typedef' and dyn_structs and rng.random() < 0.25:
            # an alias of a dynamic struct (usable as a last member only: not offered to the later definitions)
            tgt = rng.choice(dyn_structs)
            sch.add(S.Typedef(name, tgt))
            d.add(tgt)
        elif k == 'typedef':
            tgt = rng.choice(fixed + scal) if fixed else rng.choice(scal)
            if int_typedefs and rng.random() < 0.2:
                tgt = rng.choice(int_typedefs)
            sch.add(S.Typedef(name, tgt))
            if tgt not in scal:
                d.add(tgt)
            if (tgt in scal and tgt != 'r64') or tgt in int_typedefs:
                int_typedefs.append(name)
            fixed.append(name)
        elif k == 'struct':
            mem = []
            for j in range(rng.randint(1, 4)):
                t = rng.choice(fixed + scal + scal) if fixed else rng.choice(scal)
                if t not in scal:
                    d.add(t)
                r = rng.random()
                if r < 0.45:
                    mem.append(S.Member('m%d' % j, t))
                elif r < 0.8:
                    v, txt, dep = size_ref()
                    mem.append(S.Member('m%d' % j, t, S.FIXED, v, size_text=txt))
                    if dep:
                        d.add(dep)
                elif r < 0.9:
                    comps = [x for x in fixed if sch.by_name[x].kind in ('struct', 'union')]
                    if comps and rng.random() < 0.6:
                        # optionals hold their value inline: the holder needs the complete struct / union
                        t0, t = t, rng.choice(comps)
                        d.add(t)
                        if t0 != t and t0 not in scal and not any(x.type == t0 for x in mem):
                            d.discard(t0)
                    mem.append(S.Member('m%d' % j, t, S.OPTIONAL))
                elif int_typedefs and rng.random() < 0.6:
                    # an array counted by an explicit length field whose type is a typedef of an integer: the struct
                    # needs that typedef through the length field only
                    ct = rng.choice(int_typedefs)
                    mem.append(S.Member('n%d' % j, ct))
                    mem.append(S.Member('m%d' % j, t, S.EXT, sizer='n%d' % j))
                    d.add(ct)
                else:
                    mem.append(S.Member('m%d' % j, t, S.DYNAMIC))
            sch.add(S.Struct(name, mem))
            if S.struct_stiffness(sch, sch.by_name[name]) == S.FIXED_S:
                fixed.append(name)
            else:
                dyn_structs.append(name)
        else:
            arms = []
            used = set()
            for j in range(rng.randint(1, 3)):
                t = rng.choice(fixed + scal) if fixed else rng.choice(scal)
                v, txt, dep = size_ref()
                if v in used:
                    v, txt, dep = max(used) + 1 + j, None, None
                used.add(v)
                if t not in scal:
                    d.add(t)
                if dep:
                    d.add(dep)
                arms.append((v, t, 'a%d' % j, txt))
            sch.add(S.Union(name, arms))
            fixed.append(name)
        deps[name] = d
    return sch, deps


ENUMERATOR_MECH = 'sort-ignores-dependencies-on-enumerator-names'


def _uses_as_type(sch, n, dep):
    d = sch.by_name[n]
    if d.kind == 'struct':
        return any(m.type == dep for m in d.members)
    if d.kind == 'union':
        return any(a[1] == dep for a in d.arms)
    if d.kind == 'typedef':
        return d.target == dep
    return False


def shape_sig(sch, deps):
    return repr(sorted((sch.by_name[n].kind, sorted(sch.by_name[x].kind for x in d)) for n, d in deps.items()))


def compile_perm(stepper, wd, idx, sch, order, budget, inc_name=None, earlier=False):
    xml, patch = S.to_isar(sch, order=order)
    more = ['zz_more_%d' % k for k in range(idx % 3)] if inc_name else []     # 0..2 further includes in front
    if inc_name:
        # an included file that happens to be called like one of the types defined here (and defines something else)
        xml = xml.replace('<x>', '<x xmlns:xi="http://www.w3.org/2001/XInclude">\n' +
                          ''.join('<xi:include href="%s.xml"/>\n' % n for n in more + [inc_name]), 1)
    d = os.path.join(wd, 'p%d' % idx)
    pkg = 'c15p%d_%d' % (os.getpid(), idx)
    pkgdir = os.path.join(d, pkg)
    os.makedirs(pkgdir)
    open(os.path.join(pkgdir, '__init__.py'), 'w').close()
    main = os.path.join(d, 'sch.xml')
    with open(main, 'w') as f:
        f.write(xml)
    args = ['--quiet', '--isar', '--python_out', pkgdir]
    if patch:
        with open(os.path.join(d, 'sch.patch'), 'w') as f:
            f.write(patch)
        args += ['--patch', os.path.join(d, 'sch.patch')]
    if inc_name:
        with open(os.path.join(d, inc_name + '.xml'), 'w') as f:
            f.write('<x><struct name="ZzUnrelated"><member name="a" type="u8"/></struct></x>\n')
        args.append(os.path.join(d, inc_name + '.xml'))
        for k, n in enumerate(more):
            with open(os.path.join(d, n + '.xml'), 'w') as f:
                f.write('<x><struct name="ZzMore%d"><member name="a" type="u16"/></struct></x>\n' % k)
            args.append(os.path.join(d, n + '.xml'))
    if earlier:
        # another, unrelated input of the same run, processed first, that defines the same names (in a valid order)
        with open(os.path.join(d, 'aa_earlier.xml'), 'w') as f:
            f.write(S.to_isar(sch)[0])
        args.append(os.path.join(d, 'aa_earlier.xml'))
    exc, steps, nodes = pc.run_main(args + [main], stepper, budget)
    return exc, steps, nodes, xml, d, pkg


def check_perm(acc, stepper, calib, wd, idx, sch, deps, order, w, ref_layouts, exhaustive):
    typenames = [n for n in order if sch.by_name[n].kind in ('struct', 'union', 'enum', 'typedef')]
    inc_name = typenames[idx % len(typenames)] if typenames and idx % 4 == 0 else None
    if inc_name:
        acc.count('permutations_with_an_include_named_like_a_local_type')
    earlier = idx % 4 == 1
    if earlier:
        acc.count('permutations_after_another_input_with_the_same_names')
    exc, steps, nodes, xml, d, pkg = compile_perm(stepper, wd, idx, sch, order, 2 * (30 * calib + 4000 * len(order) * 200),
                                                  inc_name, earlier)
    acc.ev()
    acc.count('permutations_compiled')

    def witness(**kw):
        wit = {'order': order, 'xml': xml[:6000], 'schema_json': sch.to_json(),
               'true_dependencies': {k: sorted(v) for k, v in deps.items()}}
        wit.update(kw)
        return wit
    if exc is not None:
        cls = pc.classify(exc)
        acc.violation(PROP, 'compile-fails:%s:%s' % (cls, type(exc).__name__),
                      witness(error='%s: %s' % (type(exc).__name__, str(exc)[:500])))
        return None
    import prophyc.model as M
    lst = [n for n in nodes['sch'] if not isinstance(n, M.Include)]
    names = [n.name for n in lst]
    if sorted(names) != sorted(order):
        acc.violation(PROP, 'output-is-not-a-permutation-of-the-definitions', witness(output=names))
        return None
    pos = {n: i for i, n in enumerate(names)}
    enumerator_dep_broken = False
    for n in names:
        for dep in deps[n]:
            if pos[dep] > pos[n]:
                kd, kn = sch.by_name[dep].kind, sch.by_name[n].kind
                if kd == 'enum' and kn != 'typedef' and not _uses_as_type(sch, n, dep):
                    # dependency through an enumerator NAME (array size, discriminator, constant value)
                    if not enumerator_dep_broken:
                        acc.violation(PROP, ENUMERATOR_MECH, witness(output=names, node=n, dependency=dep))
                    enumerator_dep_broken = True
                    continue
                via = 'constant-name' if kd == 'const' else 'type-name'
                acc.violation(PROP, 'node-emitted-before-its-dependency:%s-needs-%s(%s)' % (kn, kd, via),
                              witness(output=names, node=n, dependency=dep))
                return None
    acc.count('orders_verified')
    if enumerator_dep_broken:
        return None     # known finding: the module cannot import in this order; nothing else is judged
    # python import
    import importlib
    import sys
    if d not in sys.path:
        sys.path.insert(0, d)
    importlib.invalidate_caches()
    try:
        with pyrt.quiet():
            importlib.import_module(pkg + '.sch')
        acc.count('modules_imported')
    except BaseException as e:  # noqa
        acc.violation(PROP, 'generated-module-does-not-import:%s' % type(e).__name__,
                      witness(output=names, error='%s: %s' % (type(e).__name__, str(e)[:300])))
        return None
    lay = {}
    mem = {}
    for n in lst:
        if isinstance(n, (M.Struct, M.Union)):
            lay[n.name] = (n.byte_size if w.tinfo(n.name)[2] == S.FIXED_S else None, n.alignment, n.kind)
        if isinstance(n, M.Struct):
            mem[n.name] = [(m.name, m.byte_size, m.alignment, m.padding) for m in n.members]
    if lay != ref_layouts:
        bad = [k for k in ref_layouts if lay.get(k) != ref_layouts[k]]
        acc.violation(PROP, 'layout-differs-from-reference-or-between-permutations',
                      witness(types=bad, got={k: lay.get(k) for k in bad}, reference={k: ref_layouts[k] for k in bad}))
        return None
    # member level (size, alignment, padding of every struct member): equal in every permutation, and equal to what
    # the prophy front-end computes for the same definitions written in a valid order
    ref_mem = member_ref.setdefault(id(sch), {})
    for src in ('prophy-front-end', 'first-permutation'):
        if src not in ref_mem:
            if src == 'first-permutation':
                ref_mem[src] = mem
            continue
        if ref_mem[src] is not None and mem != ref_mem[src]:
            bad = [k for k in mem if mem[k] != ref_mem[src].get(k)]
            acc.violation(PROP, 'member-layout-differs-%s' % ('between-permutations' if src == 'first-permutation' else
                                                              'from-the-prophy-front-end'),
                          witness(types=bad, got={k: mem[k] for k in bad}, reference={k: ref_mem[src].get(k) for k in bad}))
            return None
    acc.count('member_layouts_equal')
    acc.count('layouts_equal')
    return names


member_ref = {}


def prophy_member_reference(acc, wd, idx, sch):
    """Member tables of the same definitions through the prophy front-end (None when it cannot express them)."""
    import prophyc.model as M
    d = os.path.join(wd, 'ref%d' % idx)
    os.makedirs(d)
    with open(os.path.join(d, 'ref.prophy'), 'w') as f:
        f.write(sch.to_prophy())
    exc, _steps, nodes = pc.run_main(['--quiet', '--python_out', d, os.path.join(d, 'ref.prophy')])
    if exc is not None:
        acc.count('definition_sets_without_a_prophy_front_end_reference')
        return None
    acc.count('definition_sets_with_a_prophy_front_end_reference')
    return {n.name: [(m.name, m.byte_size, m.alignment, m.padding) for m in n.members]
            for n in nodes['ref'] if isinstance(n, M.Struct)}


CPP_SCALARS = {'uint8_t': 'u8', 'uint16_t': 'u16', 'uint32_t': 'u32', 'uint64_t': 'u64', 'int8_t': 'i8',
               'int16_t': 'i16', 'int32_t': 'i32', 'int64_t': 'i64', 'float': 'r32', 'double': 'r64'}


def gen_sack_dag(rng, n):
    """C++ definitions (sack input) in a valid order: name -> (kind, C++ text), true dependencies, and the prophy
    IR the sack front-end must arrive at (typedefs dissolve, union arms are numbered from 0, enumerators keep values)."""
    text, deps, kinds = {}, {}, {}
    ir = {}
    alias = {}            # C++ name usable as a member type -> IR type name
    usable = []           # names usable as member types
    enum_consts = []      # (enum name, enumerator, value) with small values, usable as array extents
    order = []
    cppname = {}
    styles = {}
    for i in range(n):
        k = rng.choice(['typedef', 'enum', 'struct', 'struct', 'union'] if i else ['enum', 'struct'])
        name = 'K%d' % i
        d = set()

        def pick():
            if usable and rng.random() < 0.6:
                t = rng.choice(usable)
                d.add(t)
                return cppname.get(t, t), alias[t]
            c = rng.choice(sorted(CPP_SCALARS))
            return c, CPP_SCALARS[c]
        # how the definition is spelled: plainly, inside a namespace (used as ns::K, emitted as ns__K when something
        # uses it), or as a typedef of an anonymous struct/union/enum
        style = rng.choice(['plain', 'plain', 'plain', 'namespace', 'anon-typedef']) if k in ('struct', 'union', 'enum') else 'plain'
        irn = 'ns__' + name if style == 'namespace' else name
        if style == 'namespace':
            cppname[name] = 'ns::' + name
        if k == 'typedef':
            t, irt = pick()
            text[name] = 'typedef %s %s;' % (t, name)
            alias[name] = irt
            usable.append(name)
        elif k == 'enum':
            vals = rng.sample(range(0, 12), rng.randint(1, 3))
            mem = [('%s_%d' % (name, j), v) for j, v in enumerate(vals)]
            body = '{ %s }' % ', '.join('%s = %d' % m for m in mem)
            text[name] = ('typedef enum %s %s;' % (body, name) if style == 'anon-typedef' else
                          'namespace ns { enum %s %s; }' % (name, body) if style == 'namespace' else 'enum %s %s;' % (name, body))
            ir[irn] = S.Enum(irn, mem)
            alias[name] = irn
            usable.append(name)
            if style != 'namespace':
                enum_consts.extend((name, en, v) for en, v in mem if 1 <= v <= 5)
        else:
            mem, lines = [], []
            for j in range(rng.randint(1, 4)):
                t, irt = pick()
                if k == 'struct' and rng.random() < 0.35:
                    if enum_consts and rng.random() < 0.5:
                        e, en, v = rng.choice(enum_consts)
                        d.add(e)
                        lines.append('    %s m%d[%s];' % (t, j, en))
                    else:
                        v = rng.randint(1, 4)
                        lines.append('    %s m%d[%d];' % (t, j, v))
                    mem.append(S.Member('m%d' % j, irt, S.FIXED, v))
                else:
                    lines.append('    %s m%d;' % (t, j))
                    mem.append(S.Member('m%d' % j, irt))
            body = '\n{\n%s\n}' % '\n'.join(lines)
            text[name] = ('typedef %s%s %s;' % (k, body, name) if style == 'anon-typedef' else
                          'namespace ns { %s %s%s; }' % (k, name, body) if style == 'namespace' else '%s %s%s;' % (k, name, body))
            ir[irn] = S.Struct(irn, mem) if k == 'struct' else S.Union(irn, [(j, m.type, m.name) for j, m in enumerate(mem)])
            alias[name] = irn
            usable.append(name)
        styles[name] = style
        kinds[name] = k
        deps[name] = d
        order.append(name)
    return order, text, deps, kinds, ir, styles


def topological_shuffle(rng, order, deps):
    """A random order in which every definition still follows what it uses (C++ needs that)."""
    left, out = list(order), []
    while left:
        ready = [n for n in left if deps[n] <= set(out)]
        n = rng.choice(ready)
        out.append(n)
        left.remove(n)
    return out


def run_sack_set(acc, wd, idx0, rng, nperm):
    order, text, deps, kinds, ir, styles = gen_sack_dag(rng, rng.randint(4, 10))
    # what must be there in any case: the plainly spelled top-level structs (namespaced and anonymous definitions are
    # emitted when something uses them - the dependency check below demands those)
    structs = [n for n in order if kinds[n] == 'struct' and styles[n] == 'plain']
    if not structs:
        return
    for st in set(styles.values()):
        acc.feature('sack-style:' + st)
    # IR in declaration order, for the reference layout of whatever is emitted
    irname = lambda n: 'ns__' + n if styles[n] == 'namespace' else n      # noqa
    sch = S.Schema([ir[irname(n)] for n in order if irname(n) in ir])
    w = W.Wire(sch)
    ref_lay = {irname(n): w.tinfo(irname(n))[:2] for n in order if kinds[n] in ('struct', 'union')}
    seen = {}
    import importlib
    import sys
    import prophyc.model as M
    for pi in range(nperm):
        perm = order if pi == 0 else topological_shuffle(rng, order, deps)
        d = os.path.join(wd, 'k%d_%d' % (idx0, pi))
        pkg = 'c15k%d_%d_%d' % (os.getpid(), idx0, pi)
        os.makedirs(os.path.join(d, pkg))
        open(os.path.join(d, pkg, '__init__.py'), 'w').close()
        src = os.path.join(d, 'sch.hpp')
        with open(src, 'w') as f:
            f.write('#include <stdint.h>\n' + '\n'.join(text[n] for n in perm) + '\n')
        exc, _, nodes = pc.run_main(['--quiet', '--sack', '--python_out', os.path.join(d, pkg), src])
        acc.ev()
        acc.count('sack_permutations_compiled')
        acc.sig(('sack', tuple(sorted((kinds[n], len(deps[n])) for n in order)), tuple(perm)))

        def witness(**kw):
            wit = {'front_end': 'sack', 'order': perm, 'header': open(src).read()[:5000],
                   'true_dependencies': {k: sorted(v) for k, v in deps.items()}}
            wit.update(kw)
            return wit
        if exc is not None:
            acc.violation(PROP, 'sack:compile-fails:%s:%s' % (pc.classify(exc), type(exc).__name__),
                          witness(error='%s: %s' % (type(exc).__name__, str(exc)[:500])))
            continue
        lst = nodes['sch']
        names = [x.name for x in lst]
        if len(set(names)) != len(names) or not set(structs) <= set(names) or not set(names) <= set(ir):
            acc.violation(PROP, 'sack:output-is-not-the-set-of-definitions', witness(output=names, structs=structs))
            continue
        pos = {x: i for i, x in enumerate(names)}
        broken = [(x, dep) for x in names for dep in true_ir_deps(ir[x]) if dep in pos and pos[dep] > pos[x]]
        missing = [(x, dep) for x in names for dep in true_ir_deps(ir[x]) if dep not in pos]
        if broken or missing:
            acc.violation(PROP, 'sack:node-emitted-before-its-dependency' if broken else 'sack:dependency-not-emitted',
                          witness(output=names, pairs=(broken or missing)[:5]))
            continue
        if d not in sys.path:
            sys.path.insert(0, d)
        importlib.invalidate_caches()
        try:
            with pyrt.quiet():
                importlib.import_module(pkg + '.sch')
        except BaseException as e:  # noqa
            acc.violation(PROP, 'sack:generated-module-does-not-import:%s' % type(e).__name__,
                          witness(output=names, error='%s: %s' % (type(e).__name__, str(e)[:300])))
            continue
        lay = {x.name: (x.byte_size, x.alignment) for x in lst if isinstance(x, (M.Struct, M.Union))}
        bad = [k for k in lay if lay[k] != ref_lay[k]]
        if bad or (seen and (sorted(names) != seen['names'] or lay != seen['lay'])):
            acc.violation(PROP, 'sack:layout-or-definition-set-differs-between-orders-or-from-reference',
                          witness(output=names, types=bad, got={k: lay[k] for k in bad}, reference={k: ref_lay[k] for k in bad},
                                  first_order_output=seen.get('names')))
            continue
        seen.setdefault('names', sorted(names))
        seen.setdefault('lay', lay)
        acc.count('sack_orders_verified')


def true_ir_deps(d):
    if d.kind == 'struct':
        return set(m.type for m in d.members if m.type not in S.INTS and m.type not in S.FLOATS)
    if d.kind == 'union':
        return set(a[1] for a in d.arms if a[1] not in S.INTS and a[1] not in S.FLOATS)
    return set()


def run_shard(spec):
    acc = Acc()
    stepper = pc.Stepper()
    rng = random.Random(spec['seed'])
    try:
        with C.Workdir() as wd:
            cal, _ = gen_dag(random.Random(7), 6)
            exc, calib, _n, _x, _d, _p = compile_perm(stepper, wd, 999999, cal, [d.name for d in cal.defs], 1 << 60)
            if exc is not None:
                acc.p['inconclusive'] = 'calibration failed: %r' % exc
                return acc.done()
            idx = [0]

            def run_set(sch, deps, perms, exhaustive):
                w = W.Wire(sch)
                ref = {}
                for d in sch.composites():
                    size, align, stiff = w.tinfo(d.name)
                    ref[d.name] = (size, align, stiff)
                acc.sig(shape_sig(sch, deps))
                member_ref.clear()
                idx[0] += 1
                member_ref[id(sch)] = {'prophy-front-end': prophy_member_reference(acc, wd, idx[0], sch)}
                for order in perms:
                    idx[0] += 1
                    check_perm(acc, stepper, calib, wd, idx[0], sch, deps, list(order), w, ref, exhaustive)
                    acc.sig((shape_sig(sch, deps), tuple(order)))
                if len(acc.p['samples']) < 2:
                    acc.sample({'definitions': [d.name + ':' + d.kind for d in sch.defs],
                                'true_dependencies': {k: sorted(v) for k, v in deps.items()},
                                'permutations_tried': len(perms), 'exhaustive': exhaustive})
            if spec['kind'] == 'replay':
                ex = spec['extra']
                sch = S.Schema.from_json(ex['schema_json'])
                deps = {k: set(v) for k, v in ex['true_dependencies'].items()}
                run_set(sch, deps, [ex['order']], False)
                return acc.done()
            # canary of the recorded finding: a constant naming an enumerator (isar puts constants first)
            can = S.Schema([S.Enum('CE', [('CE_A', 2), ('CE_B', 3)]), S.Const('CK', 2, 'CE_A'),
                            S.Struct('CS', [S.Member('a', 'u8', S.FIXED, 2, size_text='CK')])])
            run_set(can, {'CE': set(), 'CK': {'CE'}, 'CS': {'CK'}},
                    list(itertools.permutations(['CE', 'CK', 'CS'])), True)
            # a struct that needs a typedef only through the type of an array's length field, pulled forward by an alias
            # of the struct; the length type is an alias of an alias half of the time
            two = rng.random() < 0.5
            mot = S.Schema([S.Typedef('MT0', 'u16')] + ([S.Typedef('MT', 'MT0')] if two else []) +
                           [S.Struct('MB', [S.Member('cnt', 'MT' if two else 'MT0'), S.Member('items', 'u32', S.EXT, sizer='cnt')]),
                            S.Typedef('MTB', 'MB'),
                            S.Struct('MD', [S.Member('total', 'u8'), S.Member('stock', 'MTB')])])
            mdeps = {'MT0': set(), 'MT': {'MT0'}, 'MB': {'MT' if two else 'MT0'}, 'MTB': {'MB'}, 'MD': {'MTB'}}
            mnames = [d.name for d in mot.defs]
            run_set(mot, {k: v for k, v in mdeps.items() if k in mnames}, list(itertools.permutations(mnames)), True)
            for k in range(spec['small']):
                n = rng.randint(3, 5)
                sch, deps = gen_dag(rng, n)
                names = [d.name for d in sch.defs]
                run_set(sch, deps, list(itertools.permutations(names)), True)
                acc.count('definition_sets_with_all_permutations')
            for k in range(spec.get('sack', 2)):
                run_sack_set(acc, wd, k, rng, spec.get('sack_perms', 6))
            for k in range(spec['large']):
                n = rng.randint(6, 14)
                sch, deps = gen_dag(rng, n)
                names = [d.name for d in sch.defs]
                perms = [list(reversed(names)), names]
                for _ in range(spec['perms_large']):
                    p = list(names)
                    rng.shuffle(p)
                    perms.append(p)
                run_set(sch, deps, perms, False)
    finally:
        stepper.close()
    return acc.done()


def finish(ctx, merged, specs):
    if specs and specs[0]['kind'] == 'replay':
        return
    merged['exhaustive'] = False
    merged['exhaustive_note'] = 'all permutations of every generated definition set with <= 5 definitions were compiled'
    missing = [k for k in ('permutations_compiled', 'definition_sets_with_all_permutations', 'sack_orders_verified')
               if not merged['counters'].get(k)]
    if missing and not merged['inconclusive']:
        merged['inconclusive'] = 'coverage floor not met: %s' % missing
