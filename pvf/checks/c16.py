"""C16 - multi-file schemas with includes equal their single-file concatenation (DESIGN 3/C16)."""
import importlib
import os
import random
import sys

from .. import schema as S, wire as W, values as V, pc, pyrt, cppdrv
from ..harness import Acc
from . import common as C

PROP = 'C16'
RULE = ("random valid schemas (constants and enumerators used in sizes and discriminators) are cut into 2..5 files at "
        "random points of their declaration order; every file #includes the files that define names it uses (diamonds "
        "arise naturally, an include may be listed twice). The split is compiled in arrangements: same directory; "
        "sub-directories found through -I; relative paths from another working directory; absolute paths; include "
        "directives with ../, ./, absolute and -I-relative sub-directory paths whose targets include their own siblings. "
        "One global name of the last file equals a member name of a type it includes. Compared with "
        "compiling the concatenation: constants and enumerators in the imported modules, model (size, alignment, kind) "
        "of every type, encodings of default/max/odd/random values through both builds (and the reference), g++ "
        "compilation of the generated C++ include chain, and - through a sys.addaudithook('open') monitor - that each "
        "schema file is opened exactly once per invocation. Removing an included file or closing an include cycle must "
        "give a diagnostic naming the file. distinct = (schema hash, cut points, arrangement)")
ASSUMPTIONS = [
    "partitions are contiguous ranges of a valid declaration order, so the include graph is acyclic by construction",
    "file names are unique across directories (prophyc names outputs by basename)",
]
TIMEOUT = {'quick': 1500, 'thorough': 10800}
WORKERS = 10
ARRANGEMENTS = ('same-dir', 'subdirs-I', 'other-cwd-relative', 'absolute', 'include-twice', 'dotdot-include',
                'dot-slash-include', 'absolute-include', 'I-subpath-nested', 'files-named-like-types',
                'declaration-less-file', 'two-dirs-mixed', 'I-order', 'abs-I-rel-inputs', 'blank-in-include-path',
                'dotted-stems')


def shards(ctx):
    n = ctx.pick(12, 96)
    return [{'kind': 'split', 'seed': ctx.seed * 1000 + i, 'schemas': ctx.pick(4, 16), 'cpp': i % 3 == 0}
            for i in range(n)]


def replay_spec(ctx, witness):
    return {'kind': 'replay', 'seed': witness.get('seed', 0), 'schemas': 1, 'cpp': False, 'extra': witness}


def true_deps(sch, d):
    deps = set(d.deps())
    if d.kind == 'struct':
        for m in d.members:
            if m.size_text and m.size_text in sch.by_name:
                deps.add(m.size_text)
    return deps


def collide_names(sch):
    """Append a typedef whose *name* is a field (or arm) name of the composite it aliases: global names of one file
    and member names of the types it includes live in different scopes and may coincide."""
    for d in sch.defs:
        if d.kind == 'struct' and d.members:
            nm = d.members[-1].name
        elif d.kind == 'union' and d.arms:
            nm = d.arms[-1][2]
        else:
            continue
        if nm not in sch.by_name:
            sch.add(S.Typedef(nm, d.name))
        return


def add_sizer_chain(sch):
    """A chain of typedefs down to an integer, spread over the declaration order (so that cuts fall between its links),
    whose last link types the explicit sizer of an array: the struct's file includes only the file of that last link."""
    if 'ZLen' in sch.by_name:
        return
    n = len(sch.defs)
    for pos, d in ((0, S.Typedef('ZLen', 'u16')), (1 + n // 3, S.Typedef('ZLen2', 'ZLen')),
                   (2 + 2 * n // 3, S.Typedef('ZLen3', 'ZLen2'))):
        sch.defs.insert(min(pos, len(sch.defs)), d)
        sch.by_name[d.name] = d
    sch.add(S.Struct('ZSized', [S.Member('n', 'ZLen3'), S.Member('k', 'ZLen2'), S.Member('d', 'u8', S.EXT, sizer='n'),
                                S.Member('e', 'u16', S.EXT, sizer='k')]))


def make_split(sch, rng, twice=False, like_types=False, stub=False, dotted=False):
    """-> list of (filename, [def names], [included filenames])
    like_types: a file is called after the first definition it holds (N3.prophy defines N3 ...);
    stub: a file without any declaration (a comment only) is included by every other file, first."""
    names = [d.name for d in sch.defs]
    k = rng.randint(2, min(5, len(names)))
    cuts = sorted(rng.sample(range(1, len(names)), k - 1))
    parts = [names[a:b] for a, b in zip([0] + cuts, cuts + [len(names)])]
    where = {}
    files = []
    for i, p in enumerate(parts):
        for n in p:
            where[n] = i
    for i, p in enumerate(parts):
        need = set()
        for n in p:
            for dep in true_deps(sch, sch.by_name[n]):
                if where[dep] != i:
                    need.add(where[dep])
        fname = ((lambda j: '%s.prophy' % parts[j][0]) if like_types else
                 (lambda j: 'f%d.v2.x.prophy' % j) if dotted else (lambda j: 'f%d.prophy' % j))
        inc = [fname(j) for j in sorted(need)]
        if twice and inc:
            inc = inc + [inc[0]]
        rng.shuffle(inc)
        if stub:
            inc = ['stub.prophy'] + inc
        files.append((fname(i), p, inc))
    if stub:
        files.insert(0, ('stub.prophy', [], []))
    return files


def file_text(sch, part, incs, prefix=lambda f: f):
    if not part and not incs:
        return '// kept for old include lines; nothing is declared here any more\n'
    return ''.join('#include "%s"\n' % prefix(f) for f in incs) + sch.to_prophy(only=set(part))


def import_pkg(d, pkg, stem):
    if d not in sys.path:
        sys.path.insert(0, d)
    importlib.invalidate_caches()
    with pyrt.quiet():
        return importlib.import_module(pkg + '.' + stem)


def model_layouts(nodes):
    import prophyc.model as M
    out = {}

    def walk(lst):
        for n in lst:
            if isinstance(n, M.Include):
                walk(n.members)
            elif isinstance(n, (M.Struct, M.Union)):
                out[n.name] = (n.byte_size, n.alignment, n.kind)
    for base, lst in nodes.items():
        walk(lst)
    return out


def run_case(acc, audit, wd, idx, sch, rng, arrangement, want_cpp, seed):
    w = W.Wire(sch)
    files = make_split(sch, rng, twice=(arrangement == 'include-twice'),
                       like_types=(arrangement == 'files-named-like-types'), stub=(arrangement == 'declaration-less-file'),
                       dotted=(arrangement == 'dotted-stems'))
    root = os.path.join(wd, 'c%d' % idx)
    os.makedirs(root)
    # --- single-file build
    single_dir = os.path.join(root, 'single')
    pkg1 = 'c16s%d_%d' % (os.getpid(), idx)
    os.makedirs(os.path.join(single_dir, pkg1))
    open(os.path.join(single_dir, pkg1, '__init__.py'), 'w').close()
    single = os.path.join(single_dir, 'whole.prophy')
    with open(single, 'w') as f:
        f.write(sch.to_prophy())
    exc, _, nodes1 = pc.run_main(['--quiet', '--python_out', os.path.join(single_dir, pkg1), single])
    if exc is not None:
        acc.prereq({'stage': 'single-file compile', 'error': repr(exc)[:300]})
        return
    mod1 = import_pkg(single_dir, pkg1, 'whole')
    lay1 = model_layouts(nodes1)
    # --- split build
    split_dir = os.path.join(root, 'split')
    pkg2 = 'c16m%d_%d' % (os.getpid(), idx)
    out2 = os.path.join(split_dir, pkg2)
    os.makedirs(out2)
    open(os.path.join(out2, '__init__.py'), 'w').close()
    paths = {}
    incdirs = []
    subdir = {}
    for i, (fn, part, incs) in enumerate(files):
        subdir[fn] = ('dir%d' % (i % 2) if arrangement in ('subdirs-I', 'abs-I-rel-inputs') else
                      'd%d' % i if arrangement == 'dotdot-include' else
                      # two directories; a file names siblings barely and the others as ../dK/f, the others first
                      'd%d' % (i % 2) if arrangement == 'two-dirs-mixed' else
                      # the includer sits alone in app/; its includes are found through the FIRST of two -I directories
                      # (given in non-alphabetical order); the second holds same-named files with wider types
                      ('app' if i == len(files) - 1 else 'zz_inc') if arrangement == 'I-order' else
                      # the last file lives in app/ and names its includes "proto/<file>", found through -I inc; the
                      # other files are siblings in inc/proto/ and include each other by bare name; app/ goes first
                      ('app' if i == len(files) - 1 else 'inc/proto') if arrangement == 'I-subpath-nested' else
                      # the includer names its includes through a directory whose name holds a blank
                      ('app' if i == len(files) - 1 else 'app/shared defs') if arrangement == 'blank-in-include-path' else '')
    for i, (fn, part, incs) in enumerate(files):
        sub = subdir[fn]
        dd = os.path.join(split_dir, 'src', sub)
        if not os.path.isdir(dd):
            os.makedirs(dd)
        if arrangement in ('subdirs-I', 'abs-I-rel-inputs') and dd not in incdirs:
            incdirs.append(dd)
        paths[fn] = os.path.join(dd, fn)
        if arrangement == 'I-subpath-nested':
            if dd.endswith('app'):
                incdirs.append(os.path.join(split_dir, 'src', 'inc'))
                pre = lambda f: 'proto/' + f                                   # noqa
            else:
                pre = lambda f: f                                              # noqa
        elif arrangement == 'blank-in-include-path':
            pre = (lambda f: 'shared defs/' + f) if dd.endswith('app') else (lambda f: f)     # noqa
        elif arrangement == 'two-dirs-mixed':
            pre = lambda f, sub=sub: f if subdir[f] == sub else '../%s/%s' % (subdir[f], f)   # noqa
            incs = sorted(incs, key=lambda f, sub=sub: subdir[f] == sub)
        elif arrangement == 'dotdot-include':
            pre = lambda f: '../%s/%s' % (subdir[f], f)                      # noqa
        elif arrangement == 'dot-slash-include':
            pre = lambda f: './' + f                                           # noqa
        elif arrangement == 'absolute-include':
            pre = lambda f: os.path.join(split_dir, 'src', subdir[f], f)       # noqa
        else:
            pre = lambda f: f                                                  # noqa
        with open(paths[fn], 'w') as f:
            f.write(file_text(sch, part, incs, pre))
        if arrangement == 'I-order':
            for k_ in ('zz_inc', 'aa_inc'):
                if os.path.join(split_dir, 'src', k_) not in incdirs:
                    incdirs.append(os.path.join(split_dir, 'src', k_))
            if sub == 'zz_inc':
                decoy_dir = os.path.join(split_dir, 'src', 'aa_inc')
                if not os.path.isdir(decoy_dir):
                    os.makedirs(decoy_dir)
                with open(os.path.join(decoy_dir, fn), 'w') as f:
                    f.write(file_text(sch, part, incs, pre).replace('u16 ', 'u32 ').replace('u8 ', 'u64 ').replace('i16 ', 'i64 '))
                # the working directory of the run holds same-named files as well (it is no include directory)
                cwd_decoy = os.path.join(split_dir, 'src', 'cwd_decoy')
                if not os.path.isdir(cwd_decoy):
                    os.makedirs(cwd_decoy)
                with open(os.path.join(cwd_decoy, fn), 'w') as f:
                    f.write(file_text(sch, part, incs, pre).replace('u16 ', 'u64 ').replace('u8 ', 'u32 ').replace('i16 ', 'i32 '))
    args = ['--quiet', '--python_out', out2]
    if want_cpp:
        args += ['--cpp_out', out2, '--cpp_full_out', out2]
    for dd in incdirs:
        args += ['-I', dd]
    order = list(paths)
    rng.shuffle(order)
    if arrangement == 'I-subpath-nested':
        # the includer first: nothing it needs has been processed (and cached) yet
        order.remove(files[-1][0])
        order.insert(0, files[-1][0])
    cwd0 = os.getcwd()
    try:
        if arrangement == 'other-cwd-relative':
            os.chdir(root)
            inputs = [os.path.relpath(paths[fn], root) for fn in order]
            args = [os.path.relpath(a, root) if a.startswith(root) else a for a in args]
        elif arrangement == 'I-order' and os.path.isdir(os.path.join(split_dir, 'src', 'cwd_decoy')):
            os.chdir(os.path.join(split_dir, 'src', 'cwd_decoy'))
            inputs = [paths[fn] for fn in order]
            acc.count('runs_from_a_directory_holding_same_named_files')
        elif arrangement == 'abs-I-rel-inputs':
            # the same file is reached under two spellings: relative (next to a relative input) and absolute (through -I)
            os.chdir(root)
            inputs = [os.path.relpath(paths[fn], root) for fn in order]
        else:
            inputs = [paths[fn] for fn in order]
        audit.start()
        exc, _, nodes2 = pc.run_main(args + inputs)
        opens = audit.stop()
    finally:
        os.chdir(cwd0)
    acc.ev()
    acc.count('arrangement:' + arrangement)
    acc.sig((hash(sch.to_prophy()) % (1 << 30), tuple(len(p) for _, p, _ in files), arrangement))

    def witness(**kw):
        wit = {'seed': seed, 'arrangement': arrangement, 'single_file': sch.to_prophy()[:5000],
               'files': {fn: open(paths[fn]).read() for fn, part, incs in files}, 'args': args + inputs}
        wit.update(kw)
        return wit
    if exc is not None:
        acc.violation(PROP, 'split-does-not-compile:%s:%s' % (pc.classify(exc), arrangement),
                      witness(error='%s: %s' % (type(exc).__name__, str(exc)[:600])))
        return
    # each schema file opened exactly once
    counts = {fn: opens.get(os.path.abspath(p), 0) for fn, p in paths.items()}
    acc.count('file_open_events_observed', sum(counts.values()))
    if any(c != 1 for c in counts.values()):
        acc.violation(PROP, 'schema-file-not-processed-exactly-once', witness(open_counts=counts))
        return
    # outputs per file
    missing = [fn for fn in paths if not os.path.exists(os.path.join(out2, fn[:-len('.prophy')] + '.py'))]
    if missing:
        acc.violation(PROP, 'per-file-output-missing', witness(missing=missing))
        return
    lay2 = model_layouts(nodes2)
    if lay2 != lay1:
        bad = [k for k in lay1 if lay2.get(k) != lay1[k]]
        acc.violation(PROP, 'layouts-differ-from-single-file', witness(types=bad, split={k: lay2.get(k) for k in bad},
                                                                       single={k: lay1[k] for k in bad}))
        return
    acc.count('layouts_compared', len(lay1))
    def python_part():
        mods = {}
        try:
            for fn in paths:
                mods[fn] = import_pkg(split_dir, pkg2, fn[:-len('.prophy')])
        except BaseException as e:  # noqa
            acc.violation(PROP, 'split-module-does-not-import:%s' % type(e).__name__,
                          witness(error='%s: %s' % (type(e).__name__, str(e)[:400])))
            return False
        where = {n: fn for fn, part, _ in files for n in part}
        for d in sch.defs:
            m2 = mods[where[d.name]]
            if d.kind == 'const':
                if getattr(m2, d.name) != getattr(mod1, d.name) or getattr(m2, d.name) != d.value:
                    acc.violation(PROP, 'constant-differs', witness(name=d.name, split=getattr(m2, d.name), single=getattr(mod1, d.name)))
                    return False
                acc.count('constants_compared')
            elif d.kind == 'enum':
                for en, ev, _ in d.members:
                    if getattr(m2, en) != ev or getattr(mod1, en) != ev:
                        acc.violation(PROP, 'enumerator-differs', witness(name=en, split=getattr(m2, en), single=getattr(mod1, en)))
                        return False
                acc.count('constants_compared')
            elif d.kind in ('struct', 'union'):
                try:
                    da, db = getattr(m2, d.name)().encode('<'), getattr(mod1, d.name)().encode('<')
                except Exception:  # noqa - never-assigned bytes field (recorded finding of C01)
                    da = db = None
                if da != db:
                    acc.violation(PROP, 'default-constructed-message-differs', witness(type=d.name, split=C.hexs(da), single=C.hexs(db)))
                    return False
                for mode, v in V.value_set(sch, w, d.name, rng, nrand=1, aligned_greedy=False):
                    try:
                        a = getattr(m2, d.name)()
                        b = getattr(mod1, d.name)()
                        pyrt.build(a, sch, d.name, v)
                        pyrt.build(b, sch, d.name, v)
                        ea, eb = a.encode('<'), b.encode('<')
                    except Exception as e:  # noqa
                        acc.violation(PROP, 'split-class-unusable:%s' % type(e).__name__,
                                      witness(type=d.name, value=C.jsonable(v), error='%s: %s' % (type(e).__name__, e)))
                        return False
                    ref, _ = w.encode(d.name, v, '<')
                    if ea != eb or ea != ref:
                        acc.violation(PROP, 'encodings-differ', witness(type=d.name, value=C.jsonable(v), split=C.hexs(ea),
                                                                        single=C.hexs(eb), reference=C.hexs(ref)))
                        return False
                    acc.count('encodings_compared')
        return True
    # file stems with dots cannot be imported as Python modules (a.b is a package path): those runs are judged on
    # the model, the files written and the generated C++ include chain
    if arrangement != 'dotted-stems' and not python_part():
        return
    if want_cpp:
        last = files[-1][0][:-len('.prophy')]
        for ext in ('.ppf.cpp', '.pp.cpp'):
            try:
                cppdrv.compile_cpp([os.path.join(out2, last + ext)], os.path.join(out2, last + ext + '.o'), [out2],
                                   sanitize=False, cxx='g++', compile_only=True)
                acc.count('cpp_include_chains_compiled')
            except cppdrv.BuildFailed as e:
                if 'Multiple arrays bounded' in str(e):
                    continue
                acc.violation(PROP, 'split-cpp-does-not-compile:' + ext, witness(error=str(e)[-600:]))
                return
    if len(acc.p['samples']) < 2:
        acc.sample({'arrangement': arrangement, 'files': {fn: file_text(sch, part, incs)[:400] for fn, part, incs in files},
                    'open_counts': counts})


def run_negative(acc, wd, idx, sch, rng):
    """Missing include and include cycle must be reported, naming the file."""
    files = make_split(sch, rng)
    with_inc = [(fn, part, incs) for fn, part, incs in files if incs]
    if not with_inc:
        return
    root = os.path.join(wd, 'n%d' % idx)
    os.makedirs(os.path.join(root, 'out'))
    for kind in ('missing', 'cycle'):
        d = os.path.join(root, kind)
        os.makedirs(d)
        victim_fn, _, victim_incs = with_inc[-1]
        gone = victim_incs[0]
        for fn, part, incs in files:
            if kind == 'missing' and fn == gone:
                continue
            text = file_text(sch, part, incs)
            if kind == 'cycle' and fn == gone:
                text = '#include "%s"\n' % victim_fn + text
            with open(os.path.join(d, fn), 'w') as f:
                f.write(text)
        cwd0 = os.getcwd()
        try:
            if kind == 'missing':
                # the working directory holds a file of the missing name: it is no include directory
                here = os.path.join(root, 'cwd_with_namesake')
                os.makedirs(here)
                with open(os.path.join(here, gone), 'w') as f:
                    f.write([file_text(sch, part, incs) for fn, part, incs in files if fn == gone][0])
                os.chdir(here)
            exc, _, _n = pc.run_main(['--quiet', '--python_out', os.path.join(root, 'out'), os.path.join(d, victim_fn)])
        finally:
            os.chdir(cwd0)
        acc.ev()
        acc.count('negative:' + kind)
        named = gone if kind == 'missing' else victim_fn
        wit = {'kind': kind, 'main': victim_fn, 'removed_or_cyclic': named,
               'error': None if exc is None else '%s: %s' % (type(exc).__name__, str(exc)[:500])}
        if exc is None:
            acc.violation(PROP, '%s-include-silently-accepted' % kind, wit)
        elif pc.classify(exc) not in ('designed', 'project'):
            acc.violation(PROP, '%s-include-not-reported-by-a-diagnostic:%s' % (kind, type(exc).__name__), wit)
        elif named not in str(exc):
            acc.violation(PROP, '%s-include-diagnostic-does-not-name-the-file' % kind, wit)


def run_shard(spec):
    acc = Acc()
    audit = pc.OpenAudit()
    rng = random.Random(spec['seed'])
    with C.Workdir() as wd:
        idx = 0
        for k in range(spec['schemas']):
            for _ in range(20):
                # shards that also build the C++ back-ends stay inside what cpp_full documents (one array per sizer)
                sch = S.random_schema(random.Random(rng.random()), ntypes=rng.randint(4, 12), cpp_full=spec['cpp'])
                if len(sch.defs) >= 3:
                    break
            add_sizer_chain(sch)
            collide_names(sch)
            for arrangement in (ARRANGEMENTS if not spec.get('extra') else [spec['extra']['arrangement']]):
                idx += 1
                run_case(acc, audit, wd, idx, sch, rng, arrangement,
                         spec['cpp'] and arrangement in ('same-dir', 'dotted-stems'), spec['seed'])
            run_negative(acc, wd, idx, sch, rng)
    return acc.done()


def finish(ctx, merged, specs):
    if specs and specs[0]['kind'] == 'replay':
        return
    need = ['arrangement:' + a for a in ARRANGEMENTS] + ['negative:missing', 'negative:cycle', 'encodings_compared',
                                                          'file_open_events_observed', 'cpp_include_chains_compiled']
    missing = [k for k in need if not merged['counters'].get(k)]
    if missing and not merged['inconclusive']:
        merged['inconclusive'] = 'coverage floor not met: %s' % missing
