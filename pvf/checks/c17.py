"""C17 - front-ends agree: isar (+patch) and prophy text give the same wire layout (DESIGN 3/C17)."""
import os
import random

from .. import schema as S, wire as W, values as V, pc, pyrt
from ..harness import Acc
from . import common as C

PROP = 'C17'
RULE = ("the same generated IR is rendered (i) as prophy text and (ii) as isar XML where every member/struct randomly uses "
        "one of the documented equivalent forms (size, size*size2, isVariableSize +/- size, variableSizeFieldType, "
        "@sizer, THIS_IS_VARIABLE_SIZE_ARRAY, message vs struct, negative enumerators) or a patch rule (type, insert, "
        "remove, dynamic, limited, greedy, static, rename member/node, struct); both are compiled to models and Python "
        "modules: per type (size, alignment, kind) and per member (name, byte_size, alignment, padding) must be equal "
        "and equal the reference layout, and encodings of default/max/odd/random values through both modules must be "
        "byte-identical and equal the reference. Patch semantics: rules naming an absent message leave the output "
        "unchanged; a rule that cannot apply fails the compilation. distinct = (set of isar forms used, layout signature)")
ASSUMPTIONS = [
    "isar-only forms without a prophy-text twin (custom counter name/type of a limited array) are compared with the "
    "reference only through the variableSizeFieldType form of dynamic arrays",
    "expressions in XML attributes are escaped",
]
TIMEOUT = {'quick': 1500, 'thorough': 10800}
INAPPLICABLE = ['{S} type nope u8', '{S} remove nope', '{S} frobnicate x', '{S} type a', '{S} insert x y u8',
                '{S} dynamic nope n', '{S} static nope 3', '{S} greedy', '{S} rename', '{S} struct']


def shards(ctx):
    n = ctx.pick(16, 96)
    return [{'kind': 'pair', 'seed': ctx.seed * 1000 + i, 'schemas': ctx.pick(12, 60)} for i in range(n)]


def replay_spec(ctx, witness):
    return {'kind': 'replay', 'seed': 0, 'schemas': 1, 'extra': witness}


def isar_friendly_schema(rng):
    """Random schema plus a few structs that make the special isar forms applicable."""
    sch = S.random_schema(rng, ntypes=rng.randint(3, 9))
    k = 0
    fixed = [d.name for d in sch.defs if d.kind in ('struct', 'union', 'enum') and S.type_stiffness(sch, d.name) == S.FIXED_S]
    # constants built on each other without blanks around the operators, used as array sizes
    a, b = rng.randint(1, 3), rng.randint(2, 3)
    sch.add(S.Const('XK1', a))
    sch.add(S.Const('XK2', a * b, 'XK1*%d' % b))
    sch.add(S.Const('XK3', a + a * b + 1, '(XK1+XK2)+1'))
    # isar's operator functions, nested in themselves and in each other (the prophy text carries the plain number)
    o1, o2 = rng.randint(0, 2), rng.randint(1, 2)
    sch.add(S.Const('XO1', (1 << o1) | 2 | 4, isar_text='bitMaskOr(bitMaskOr(%d, 2), 4)' % (1 << o1)))
    sch.add(S.Const('XO2', 1 << (1 << o2), isar_text='shiftLeft(1, shiftLeft(1, %d))' % o2))
    sch.add(S.Const('XO3', (1 << o2) | 1, isar_text='bitMaskOr(shiftLeft(1, %d), 1)' % o2))
    sch.add(S.Struct('XOS', [S.Member('a', 'u8', S.FIXED, (1 << o1) | 6, size_text='XO1'),
                             S.Member('b', 'u16', S.FIXED, 1 << (1 << o2), size_text='XO2'),
                             S.Member('c', 'u32', S.LIMITED, (1 << o2) | 1, size_text='XO3')]))
    sch.add(S.Struct('XD', [S.Member('p', 'u8', S.FIXED, a * b, size_text='XK2'),
                            S.Member('q', 'u16', S.LIMITED, a + a * b + 1, size_text='XK3'),
                            S.Member('r', 'u32', S.FIXED, a, size_text='XK1')]))
    for name_form in ('len', 'numOf', 'neg'):
        k += 1
        if name_form == 'len':
            t = rng.choice(fixed + ['u8', 'u16', 'byte'])
            sch.add(S.Struct('XL%d' % k, [S.Member('a', 'u8'), S.Member('x_len', rng.choice(['u8', 'u16', 'u32', 'i16'])),
                                          S.Member('x', t, S.EXT, sizer='x_len'), S.Member('z', 'u16')]))
        elif name_form == 'numOf':
            sch.add(S.Struct('XN%d' % k, [S.Member('numOfItems', 'u16'), S.Member('b', 'u8'),
                                          S.Member('items', rng.choice(fixed + ['u32']), S.EXT, sizer='numOfItems')]))
        else:
            sch.add(S.Enum('XE%d' % k, [('XE%d_A' % k, 0xFFFFFFF6), ('XE%d_B' % k, 1), ('XE%d_C' % k, 0xFFFFFFFF)]))
            sch.add(S.Struct('XS%d' % k, [S.Member('e', 'XE%d' % k), S.Member('f', 'XE%d' % k, S.FIXED, 2)]))
    # isar's optional arrays: a u32 has_<name> directly in front of an array of any dimension form
    for d in sch.defs:
        if d.kind != 'struct':
            continue
        i = 0
        while i < len(d.members):
            m = d.members[i]
            if m.kind in (S.FIXED, S.DYNAMIC, S.LIMITED, S.EXT) and rng.random() < 0.2 and \
                    not any(x.name == 'has_' + m.name for x in d.members):
                d.members.insert(i, S.Member('has_' + m.name, 'u32'))
                i += 1
            i += 1
    return sch


def member_table(node):
    return [(m.name, m.byte_size, m.alignment, m.padding) for m in node.members]


def all_nodes(lst):
    """Model nodes of a file and, through Include nodes, of the files it includes."""
    import prophyc.model as M
    out = []
    for n in lst:
        if isinstance(n, M.Include):
            out.extend(all_nodes(n.members))
        else:
            out.append(n)
    return out


def run_pair(acc, wd, idx, sch, rng):
    import prophyc.model as M
    w = W.Wire(sch)
    inc = {} if rng.random() < 0.4 else None
    xml, patch, forms = S.to_isar_variants(sch, rng, split=inc)
    text = sch.to_prophy()
    acc.ev()
    for f in forms:
        acc.feature('form:' + f)

    def witness(**kw):
        wit = {'schema_json': sch.to_json(), 'prophy': text[:5000], 'isar': xml[:6000], 'patch': patch,
               'forms': sorted(forms), 'included': inc}
        wit.update(kw)
        return wit
    try:
        mod_p, nodes_p = pyrt.compile_python(text, wd, name='sch')
    except pyrt.CompileFailed as e:
        acc.prereq({'stage': 'prophy ' + e.stage, 'error': str(e)[:300]})
        return
    try:
        mod_i, nodes_i = pyrt.compile_python(xml, wd, name='sch', fmt='isar', patch=patch, files=inc or None,
                                             files_are_inputs=True)
    except pyrt.CompileFailed as e:
        acc.violation(PROP, 'isar-rendering-does-not-compile:%s:%s' % (e.stage, type(e.exc).__name__),
                      witness(error=str(e)[:600]))
        return
    acc.count('pairs_compiled')
    np_ = {n.name: n for n in nodes_p['sch'] if isinstance(n, (M.Struct, M.Union))}
    ni = {n.name: n for n in all_nodes(nodes_i['sch']) if isinstance(n, (M.Struct, M.Union))}
    if set(np_) != set(ni):
        acc.violation(PROP, 'type-sets-differ', witness(prophy=sorted(np_), isar=sorted(ni)))
        return
    for name in np_:
        a, b = np_[name], ni[name]
        size, align, stiff = w.tinfo(name)
        acc.sig((tuple(sorted(forms)), repr([(f.role, f.size, f.align) for f in w.fields(sch.by_name[name])])
                 if sch.by_name[name].kind == 'struct' else name))
        ta = (a.byte_size, a.alignment, a.kind)
        tb = (b.byte_size, b.alignment, b.kind)
        if ta != tb:
            acc.violation(PROP, 'type-layout-differs-between-front-ends', witness(type=name, prophy=ta, isar=tb))
            return
        if (a.alignment, a.kind) != (align, stiff) or (stiff == S.FIXED_S and a.byte_size != size):
            acc.violation(PROP, 'type-layout-differs-from-reference', witness(type=name, model=ta, reference=(size, align, stiff)))
            return
        if isinstance(a, M.Struct) and member_table(a) != member_table(b):
            acc.violation(PROP, 'member-layout-differs-between-front-ends',
                          witness(type=name, prophy=member_table(a), isar=member_table(b)))
            return
        acc.count('types_compared')
    for d in sch.composites():
        # untouched, default-constructed messages (first arms, first enumerators) must agree as well
        try:
            dx, dy = getattr(mod_p, d.name)().encode('<'), getattr(mod_i, d.name)().encode('<')
        except Exception:  # noqa - a never-assigned bytes field cannot be encoded (recorded finding of C01)
            dx = dy = None
        if dx != dy:
            acc.violation(PROP, 'default-constructed-message-differs-between-front-ends',
                          witness(type=d.name, prophy=C.hexs(dx), isar=C.hexs(dy)))
            return
        acc.count('default_messages_compared')
        for mode, v in V.value_set(sch, w, d.name, rng, nrand=1, aligned_greedy=False):
            try:
                x, y = getattr(mod_p, d.name)(), getattr(mod_i, d.name)()
                pyrt.build(x, sch, d.name, v)
                pyrt.build(y, sch, d.name, v)
                ex, ey = x.encode('<'), y.encode('<')
                bx, by = x.encode('>'), y.encode('>')
            except Exception as e:  # noqa
                acc.violation(PROP, 'message-unusable-through-one-front-end:%s' % type(e).__name__,
                              witness(type=d.name, value=C.jsonable(v), error='%s: %s' % (type(e).__name__, e)))
                return
            ref, _ = w.encode(d.name, v, '<')
            if ex != ey or bx != by or ex != ref:
                acc.violation(PROP, 'encodings-differ-between-front-ends' if ex != ey else 'encodings-differ-from-reference',
                              witness(type=d.name, value=C.jsonable(v), prophy=C.hexs(ex), isar=C.hexs(ey), reference=C.hexs(ref)))
                return
            acc.count('encodings_compared')
    if len(acc.p['samples']) < 2 and patch:
        acc.sample({'prophy': text[:700], 'isar': xml[:900], 'patch': patch, 'forms': sorted(forms)})
    # patch semantics
    structs = [d.name for d in sch.structs()]
    if structs and rng.random() < 0.5:
        ghost = (patch or '') + 'NoSuchMessage type a u8\nNoSuchMessage frobnicate\nNoSuchMessage remove x\n'
        try:
            mod_g, nodes_g = pyrt.compile_python(xml, wd, name='sch', fmt='isar', patch=ghost, files=inc or None,
                                                 files_are_inputs=True)
            tg = {n.name: (n.byte_size, n.alignment, n.kind) for n in all_nodes(nodes_g['sch'])
                  if isinstance(n, (M.Struct, M.Union))}
            ti = {n: (x.byte_size, x.alignment, x.kind) for n, x in ni.items()}
            if tg != ti:
                acc.violation(PROP, 'rule-for-absent-message-changes-output', witness(ghost_patch=ghost))
            acc.count('absent_message_rules_ignored')
        except pyrt.CompileFailed as e:
            acc.violation(PROP, 'rule-for-absent-message-fails-compilation', witness(ghost_patch=ghost, error=str(e)[:300]))
        target = rng.choice(structs)
        xml_plain, patch_plain = S.to_isar(sch)
        rule = rng.choice(INAPPLICABLE).replace('{S}', target)
        if rule.endswith(' struct') and sch.by_name[target].kind != 'struct':
            return
        try:
            pyrt.compile_python(xml_plain, wd, name='sch', fmt='isar', patch=(patch_plain or '') + rule + '\n')
            acc.violation(PROP, 'inapplicable-patch-rule-accepted', witness(rule=rule))
        except pyrt.CompileFailed as e:
            acc.count('inapplicable_rules_rejected')
            if pc.classify(e.exc) == 'internal':
                acc.count('inapplicable_rule_rejected_by_internal_exception(C13)')


def run_shard(spec):
    acc = Acc()
    rng = random.Random(spec['seed'])
    with C.Workdir() as wd:
        if spec['kind'] == 'replay':
            sch = S.Schema.from_json(spec['extra']['schema_json'])
            for k in range(30):
                run_pair(acc, wd, k, sch, random.Random(k))
            return acc.done()
        for k in range(spec['schemas']):
            sch = isar_friendly_schema(random.Random(rng.random()))
            run_pair(acc, wd, k, sch, rng)
    return acc.done()


def finish(ctx, merged, specs):
    if specs and specs[0]['kind'] == 'replay':
        return
    need = ['form:' + f for f in ('size', 'size*size2', 'isVariableSize', 'isVariableSize+size',
                                  'isVariableSize+variableSizeFieldType', '@sizer', 'THIS_IS_VARIABLE_SIZE_ARRAY',
                                  'message', 'negative-enumerator', 'patch-type', 'patch-insert', 'patch-remove',
                                  'patch-dynamic', 'patch-limited', 'patch-greedy', 'patch-static',
                                  'patch-rename-member', 'patch-rename-node', 'patch-struct',
                                  'patch-greedy-then-remove', 'patch-remove-then-greedy', 'patch-static-on-counted-array', 'optional-array:ext',
                                  'optional-array:fixed', 'optional-array:dynamic', 'optional-array:limited')]
    missing = [f for f in need if f not in merged['features']]
    for k in ('encodings_compared', 'absent_message_rules_ignored', 'inapplicable_rules_rejected'):
        if not merged['counters'].get(k):
            missing.append(k)
    if missing and not merged['inconclusive']:
        merged['inconclusive'] = 'coverage floor not met: %s' % missing
