"""C18 - text rendering is the same in Python and C++ and is not order-sensitive (DESIGN 3/C18)."""
import re

from .. import schema as S, values as V, pyrt, cppdrv
from ..harness import Acc
from . import common as C, cppcommon as CC

PROP = 'C18'
RULE = ("for every struct/union of float-free generated schemas and default/max/odd/random values (bytes drawn from an "
        "alphabet with tab, newline, CR, backslash, double quote, 0x00, 0x7f, 0x80, 0xff, never 0x27): str(msg) of the "
        "Python codec and print() of the compiled C++ full codec (fed the same canonical bytes, under ASan+UBSan) must "
        "both equal the reference rendering; every bytes/enum/u8/i8/nested field is followed by integer fields in "
        "the member-sequence workload, so formatting state leaking into later fields shows as a wrong later line. "
        "distinct by span-layout signature; non-trivial = rendering has >= 3 lines")
ASSUMPTIONS = [
    "floating point fields are excluded (language-specific formatting), bytes never contain 0x27 (as the property states)",
    "reference rendering (pvf/wire.py render) implements the statement of the property",
]
TIMEOUT = {'quick': 1500, 'thorough': 10800}
WORKERS = 10
NOFLOAT = [t for t in S.PALETTE_TAGS if t != 'r64']


# every byte value except 0x27 (the property's exclusion); the delicate ones (escapes, quotes, boundaries) weigh more
ALPHABET = V.BYTES_ALPHABET * 6 + [x for x in range(256) if x != 0x27]


def shards(ctx):
    specs = CC.cpp_specs(ctx)
    for s in specs:
        s['allow_float'] = False
        if s['kind'] == 'seq':
            s['seqs'] = [[t for t in q if t != 'r64'] or ['u8'] for q in s['seqs']]
    return specs


def replay_spec(ctx, witness):
    return {'cpp': True, 'kind': 'replay', 'schema': witness['schema_json'], 'type': witness['type'], 'seed': 0,
            'extra': witness}


def has_float(sch, tname, _seen=None):
    _seen = _seen or set()
    r = sch.resolve(tname)
    if isinstance(r, str):
        return r in S.FLOATS
    if r.kind == 'enum' or r.name in _seen:
        return False
    _seen.add(r.name)
    subs = [a[1] for a in r.arms] if r.kind == 'union' else [m.type for m in r.members if m.type != 'byte']
    return any(has_float(sch, t, _seen) for t in subs)


def diff_class(got, exp):
    gl, el = got.split('\n'), exp.split('\n')
    for i, (a, b) in enumerate(zip(gl, el)):
        if a != b:
            prev_hex = any('\\x' in x for x in el[:i])
            kind = 'bytes-line' if "'" in b else ('block-line' if b.rstrip().endswith('{') or b.strip() == '}' else 'value-line')
            return '%s%s' % (kind, ':after-hex-escape' if prev_hex and kind == 'value-line' else '')
    return 'line-count'


def run_shard(spec):
    acc = Acc()
    with C.Workdir() as wd:
        env = CC.open_full(spec, acc, wd, want_python=True)
        if env is None:
            return acc.done()
        sch, names, tagmap, w, rng, mod = env['sch'], env['names'], env['tagmap'], env['wire'], env['rng'], env['mod']
        cases = []
        info = {}
        byte_values_seen = set()
        for ti, n in enumerate(names):
            if has_float(sch, n):
                acc.count('types_with_floats_skipped')
                continue
            if spec['kind'] == 'replay':
                vals = [(spec['extra'].get('mode'), C.unjson(spec['extra']['value']))]
            else:
                vals = V.value_set(sch, w, n, rng, nrand=3, aligned_greedy=True, allow_float=False, bytes_alphabet=ALPHABET)
            for mode, v in vals:
                exp, spans = w.encode(n, v, '<')
                cid = 'c%d' % len(cases)
                cases.append((cid, ti, 1, 0, exp))
                info[cid] = (n, mode, v, exp, spans)
        res, reports = cppdrv.run_cases(env['binary'], cases)
        for cid, (n, mode, v, data, spans) in info.items():
            acc.ev()
            text = w.render(n, v)
            nlines = text.count('\n')
            if nlines >= 3:
                acc.sig(C.span_sig(spans) + mode)
            for k in ('bytes', 'enum'):
                if any(s[2] == k for s in spans):
                    acc.feature('has-' + k)
            for esc in re.findall(r'\\(x[0-9a-f]{2}|[tnr\\])', text):
                byte_values_seen.add(esc)
            if '\\x' in text:
                acc.feature('hex-escape-followed-by-lines' if text.index('\\x') < text.rfind('\n', 0, len(text) - 1) else 'hex-escape')

            def witness(**kw):
                sub = sch.closure(n)
                wit = {'schema_json': sub.to_json(), 'schema': sub.to_prophy(), 'type': n, 'tags': tagmap[n],
                       'mode': mode, 'value': C.jsonable(v), 'expected_text': text}
                wit.update(kw)
                return wit
            # Python
            pytext = None
            if mod is not None:
                try:
                    m = getattr(mod, n)()
                    pyrt.build(m, sch, n, v)
                    pytext = str(m)
                except Exception as e:  # noqa
                    acc.violation(PROP, 'python-str-raises:%s' % type(e).__name__,
                                  witness(error='%s: %s' % (type(e).__name__, e)))
                if pytext is not None:
                    acc.count('python_renderings')
                    if pytext != text:
                        acc.violation(PROP, 'python-text-differs:' + diff_class(pytext, text), witness(python_text=pytext))
            # C++
            r = res.get(cid)
            if r is None:
                acc.count('cases_not_executed')
                continue
            if r.get('timeout'):
                acc.p['inconclusive'] = 'driver watchdog fired'
                continue
            if CC.reaches_misaligned_optional(sch, w, n):
                acc.count('known_finding_types_not_judged')
                continue
            if 'crash' in r:
                mech, frames = CC.crash_mechanism(r)
                acc.violation(PROP, 'sanitizer:' + mech, witness(report=r['crash'][:3000], frames=frames))
                continue
            if not r.get('ok'):
                acc.count('cpp_decode_rejected_not_judged_here')
                continue
            cpptext = r.get('T', b'').decode('latin1')
            acc.count('cpp_renderings')
            acc.count('lines_compared', nlines)
            if cpptext != text:
                acc.violation(PROP, 'cpp-text-differs:' + diff_class(cpptext, text),
                              witness(cpp_text=cpptext, python_text=pytext))
            elif len(acc.p['samples']) < 3 and nlines >= 4 and '\\x' in text:
                acc.sample({'schema': sch.closure(n).to_prophy(), 'type': n, 'value': C.jsonable(v), 'text': text})
        for esc in byte_values_seen:
            acc.feature('escape:' + esc)
        for rep in reports:
            if rep.get('timeout'):
                acc.p['inconclusive'] = 'driver watchdog fired'
            else:
                acc.violation(PROP, 'sanitizer-at-exit:' + (cppdrv.san_class(rep.get('stderr', '')) or 'rc=%s' % rep.get('rc')),
                              {'schema': sch.to_prophy()[:3000], 'report': rep.get('stderr', '')[:3000]})
    return acc.done()


def finish(ctx, merged, specs):
    if specs and specs[0]['kind'] == 'replay':
        return
    need = ['has-bytes', 'has-enum', 'hex-escape-followed-by-lines']
    missing = [f for f in need if f not in merged['features']]
    for k in ('cpp_renderings', 'python_renderings'):
        if not merged['counters'].get(k):
            missing.append(k)
    escapes = [f for f in merged['features'] if f.startswith('escape:')]
    merged['counters']['distinct_escape_sequences_rendered'] = len(escapes)
    if len(escapes) < 150:       # 162 exist: 4 named ones and \\x00..\\x1f, \\x7f..\\xff without tab, newline, CR
        missing.append('fewer than 150 of the 162 escape sequences rendered (%d)' % len(escapes))
    if missing and not merged['inconclusive']:
        merged['inconclusive'] = 'coverage floor not met: %s' % missing
