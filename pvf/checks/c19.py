"""C19 - byte order changes only the bytes inside scalars; padding is always zero (DESIGN 3/C19)."""
from .. import schema as S, wire as W, values as V, pyrt
from ..harness import Acc
from . import common as C

PROP = 'C19'
RULE = ("metamorphic: for every generated message value the '<' and '>' encodings of the Python codec (and the "
        "little/big/native vector encoders of the generated C++ full codec, run under ASan+UBSan) are compared with each "
        "other through the reference role map: same length, every multi-byte scalar/counter/flag/discriminator/enum "
        "mirrored in place, bytes fields identical, every padding byte zero in both, native == host order; values use "
        "non-palindromic byte patterns (and -0.0); two cases in three are preceded by a single-order encode of the default "
        "message; distinct by span-layout signature, non-trivial = has a multi-byte scalar and padding")
ASSUMPTIONS = [
    "the role map (which byte belongs to which scalar / is padding) comes from the reference encoder's layout of the "
    "same value; when the codec's length differs from the reference's the case is counted as role-map-unavailable and "
    "only the length law is decided (C01/C03 own the layout)",
    "host is little-endian x86-64: 'native' can only be compared with little here",
]


TIMEOUT = {'quick': 1500, 'thorough': 10800}
WORKERS = 10


def shards(ctx):
    specs = C.py_specs(ctx)
    from . import c19cpp
    return specs + c19cpp.shards(ctx)


def replay_spec(ctx, witness):
    if witness.get('cpp'):
        from . import c19cpp
        return c19cpp.replay_spec(ctx, witness)
    return C.replay_spec_generic(ctx, witness)


def mirror_law(le, be, spans):
    """Return None when the law holds, else (mechanism, detail)."""
    if len(le) != len(be):
        return 'lengths-differ', {'little_len': len(le), 'big_len': len(be)}
    for o, w, k, p in spans:
        a, b = le[o:o + w], be[o:o + w]
        if k == 'pad':
            if any(a) or any(b):
                return 'padding-not-zero', {'offset': o, 'width': w, 'little': a.hex(), 'big': b.hex()}
        elif k == 'bytes':
            if a != b:
                return 'bytes-field-differs', {'offset': o, 'path': p}
        else:
            if a != b[::-1]:
                return 'scalar-not-mirrored:%s/%d' % (k, w), {'offset': o, 'path': p, 'little': a.hex(), 'big': b.hex()}
    return None


def check_case(acc, sch, w, mod, tname, tags, mode, v, history=True):
    exp, spans = w.encode(tname, v, '<')
    acc.ev()
    multi = any(s[1] > 1 and s[2] not in ('pad', 'bytes') for s in spans)
    if multi and any(s[2] == 'pad' for s in spans):
        acc.sig(C.span_sig(spans))

    def witness(**kw):
        sub = sch.closure(tname)
        wit = {'schema_json': sub.to_json(), 'schema': sub.to_prophy(), 'type': tname, 'tags': tags, 'mode': mode,
               'value': C.jsonable(v), 'endian': '<'}
        wit.update(kw)
        return wit
    try:
        m = getattr(mod, tname)()
        # process history: two cases in three first encode the still-default message in ONE byte order only, so that
        # anything the codec remembers per byte order has a different past for '<' and '>'
        first = ('<', '>', None)[acc.p['evaluations'] % 3] if history else None
        if first:
            try:
                m.encode(first)
                acc.count('single_order_encodes_before_the_pair')
            except Exception:  # noqa - unset bytes default (C01's recorded finding)
                pass
        # every other case is built with the fewest operations: what equals its default is never touched (nor read)
        pyrt.build(m, sch, tname, v, sparse=(acc.p['evaluations'] % 2 == 1))
        le = m.encode('<')
        be = m.encode('>')
    except Exception as e:  # noqa - C01 owns encode failures
        acc.count('encode_raised_not_judged_here')
        return
    if len(le) != len(exp):
        acc.count('role_map_unavailable')
        if len(le) != len(be):
            acc.violation(PROP, 'py:lengths-differ', witness(little=C.hexs(le), big=C.hexs(be)))
        return
    r = mirror_law(le, be, spans)
    acc.count('scalars_mirrored', sum(1 for s in spans if s[1] > 1 and s[2] not in ('pad', 'bytes')))
    acc.count('padding_bytes_checked', sum(s[1] for s in spans if s[2] == 'pad'))
    for s in spans:
        if s[2] not in ('pad', 'bytes'):
            acc.feature('%s/%d' % (s[2], s[1]))
    if r:
        acc.violation(PROP, 'py:' + r[0], witness(little=C.hexs(le), big=C.hexs(be), detail=r[1]))
    elif len(acc.p['samples']) < 3 and multi:
        acc.sample({'schema': sch.closure(tname).to_prophy(), 'type': tname, 'value': C.jsonable(v),
                    'little': C.hexs(le), 'big': C.hexs(be)})


def fresh_process_history(acc, wd, first):
    """Runs before anything else was encoded in this worker process: every scalar type's very first encodes happen in
    ONE byte order (`first`), with the default values; only then the values that compare equal to those defaults
    without being them (-0.0) are encoded in both orders and put to the mirror law."""
    M = S.Member
    sch = S.Schema([S.Struct('HE', [M('a', 'r64'), M('b', 'r32')]),
                    S.Union('HU', [(1, 'r32', 'x'), (2, 'r64', 'y')]),
                    S.Struct('H', [M('a', 'r32'), M('b', 'r64'), M('c', 'r32', S.DYNAMIC), M('d', 'r64', S.OPTIONAL),
                                   M('e', 'HE', S.FIXED, 2), M('u', 'HU'), M('i', 'i64'), M('j', 'u16')])])
    try:
        mod, nodes = pyrt.compile_python(sch.to_prophy(), wd)
    except pyrt.CompileFailed as e:
        acc.prereq({'stage': e.stage, 'error': str(e)[:300]})
        return
    w = W.Wire(sch)
    m = mod.H()
    m.c[:] = [0.0, 0.0]
    m.d = 0.0
    m.encode(first)
    acc.count('fresh_process_histories')
    nz = {'a': -0.0, 'b': -0.0, 'c': [-0.0, 0.0], 'd': -0.0, 'e': [{'a': -0.0, 'b': 0.0}, {'a': 0.0, 'b': -0.0}],
          'u': ('y', -0.0), 'i': 0, 'j': 0}
    check_case(acc, sch, w, mod, 'H', ['fresh-process-history', first], 'negative-zero', nz, history=False)
    nan, inf = float('nan'), float('inf')
    special = {'a': nan, 'b': nan, 'c': [nan, -inf], 'd': nan, 'e': [{'a': nan, 'b': inf}, {'a': -inf, 'b': nan}],
               'u': ('x', nan), 'i': -2, 'j': 0x1234}
    check_case(acc, sch, w, mod, 'H', ['fresh-process-history', first], 'nan-and-infinities', special, history=False)
    sub = {'a': 1e-45, 'b': 5e-324, 'c': [1.17549435e-38, -1e-45], 'd': -5e-324, 'e': [{'a': 5e-324, 'b': 1e-45}] * 2,
           'u': ('y', 2.2250738585072014e-308), 'i': 1, 'j': 1}
    check_case(acc, sch, w, mod, 'H', ['fresh-process-history', first], 'denormals', sub, history=False)


def run_shard(spec):
    if spec.get('cpp'):
        from . import c19cpp
        return c19cpp.run_shard(spec)
    acc = Acc()
    with C.Workdir() as wd:
        if spec['kind'] != 'replay':
            fresh_process_history(acc, wd, '<>'[spec.get('seed', 0) % 2])
        for sch, names, tagmap, mod, nodes, rng in C.iter_py_schemas(spec, acc, wd):
            w = W.Wire(sch)
            for n in names:
                if spec['kind'] == 'replay':
                    ex = spec['extra']
                    check_case(acc, sch, w, mod, n, ['replay'], ex.get('mode'), C.unjson(ex['value']))
                    continue
                for mode, v in V.value_set(sch, w, n, rng, nrand=spec['nrand'], aligned_greedy=False):
                    if mode == 'default' and not any(w.encode(n, v, '<')[0]):
                        continue  # all-zero values say nothing about byte order (defaults with non-zero enumerators do)
                    check_case(acc, sch, w, mod, n, tagmap[n], mode, v)
    return acc.done()


def finish(ctx, merged, specs):
    merged['exhaustive_note'] = C.exhaustive_note(ctx)
    need = ['scalar/2', 'scalar/4', 'scalar/8', 'counter/4', 'flag/4', 'disc/4', 'enum/4']
    need += ['cpp:' + x for x in need]
    missing = [f for f in need if f not in merged['features']]
    if missing and not merged['inconclusive'] and specs and specs[0]['kind'] != 'replay':
        merged['inconclusive'] = 'coverage floor not met: %s' % missing
