"""C++ half of C19: little/big/native vector encoders of the generated full codec."""
from .. import schema as S, values as V, cppdrv
from ..harness import Acc
from . import common as C, cppcommon as CC

PROP = 'C19'


def shards(ctx):
    return CC.cpp_specs(ctx, files_quick=5, per_file=80, rand_files_quick=1)


def replay_spec(ctx, witness):
    return {'cpp': True, 'kind': 'replay', 'schema': witness['schema_json'], 'type': witness['type'], 'seed': 0,
            'extra': witness}


def run_shard(spec):
    from .c19 import mirror_law
    acc = Acc()
    with C.Workdir() as wd:
        env = CC.open_full(spec, acc, wd)
        if env is None:
            return acc.done()
        sch, names, tagmap, w, rng = env['sch'], env['names'], env['tagmap'], env['wire'], env['rng']
        cases = []
        info = {}
        for ti, n in enumerate(names):
            if spec['kind'] == 'replay':
                vals = [(spec['extra'].get('mode'), C.unjson(spec['extra']['value']))]
            else:
                vals = [x for x in V.value_set(sch, w, n, rng, nrand=2, aligned_greedy=True) if x[0] != 'default']
            for mode, v in vals:
                exp, spans = w.encode(n, v, '<')
                cid = 'c%d' % len(cases)
                cases.append((cid, ti, 1, 0, exp))
                info[cid] = (n, mode, v, exp, spans)
        res, reports = cppdrv.run_cases(env['binary'], cases)
        for cid, (n, mode, v, data, spans) in info.items():
            acc.ev()
            multi = any(s[1] > 1 and s[2] not in ('pad', 'bytes') for s in spans)
            if multi and any(s[2] == 'pad' for s in spans):
                acc.sig('cpp' + C.span_sig(spans))

            def witness(**kw):
                sub = sch.closure(n)
                wit = {'cpp': True, 'schema_json': sub.to_json(), 'schema': sub.to_prophy(), 'type': n,
                       'tags': tagmap[n], 'mode': mode, 'value': C.jsonable(v)}
                wit.update(kw)
                return wit
            r = res.get(cid)
            if r is None:
                acc.count('cases_not_executed')
                continue
            if r.get('timeout'):
                acc.p['inconclusive'] = 'driver watchdog fired'
                continue
            if CC.reaches_misaligned_optional(sch, w, n):
                acc.count('known_finding_types_not_judged')
                continue
            if 'crash' in r:
                mech, frames = CC.crash_mechanism(r)
                acc.violation(PROP, 'cpp:sanitizer:' + mech, witness(report=r['crash'][:3000], frames=frames))
                continue
            if not r.get('ok'):
                acc.count('cpp_decode_rejected_not_judged_here')
                continue
            le, be, na = r.get('L', b''), r.get('B', b''), r.get('N', b'')
            acc.count('cpp_objects_encoded')
            if len(le) != len(data):
                acc.count('role_map_unavailable')
                if len(le) != len(be):
                    acc.violation(PROP, 'cpp:lengths-differ', witness(little=C.hexs(le), big=C.hexs(be)))
                continue
            bad = mirror_law(le, be, spans)
            for s in spans:
                if s[2] not in ('pad', 'bytes'):
                    acc.feature('cpp:%s/%d' % (s[2], s[1]))
            acc.count('scalars_mirrored', sum(1 for s in spans if s[1] > 1 and s[2] not in ('pad', 'bytes')))
            acc.count('padding_bytes_checked', sum(s[1] for s in spans if s[2] == 'pad'))
            if bad:
                acc.violation(PROP, 'cpp:' + bad[0], witness(little=C.hexs(le), big=C.hexs(be), detail=bad[1]))
            elif na != le:
                acc.violation(PROP, 'cpp:native-is-not-host-order', witness(little=C.hexs(le), native=C.hexs(na)))
            elif len(acc.p['samples']) < 2 and multi:
                acc.sample({'cpp': True, 'schema': sch.closure(n).to_prophy(), 'type': n, 'value': C.jsonable(v),
                            'little': C.hexs(le), 'big': C.hexs(be), 'native': C.hexs(na)})
        for rep in reports:
            if rep.get('timeout'):
                acc.p['inconclusive'] = 'driver watchdog fired'
            else:
                acc.violation(PROP, 'cpp:sanitizer-at-exit:' + (cppdrv.san_class(rep.get('stderr', '')) or 'rc=%s' % rep.get('rc')),
                              {'schema': sch.to_prophy()[:3000], 'report': rep.get('stderr', '')[:3000]})
    return acc.done()
