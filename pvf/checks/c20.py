"""C20 - prophyc output is a deterministic function of its inputs (DESIGN 3/C20)."""
import hashlib
import os
import random
import shutil

from .. import schema as S, pc
from ..harness import Acc
from . import common as C
from .c16 import make_split, file_text

PROP = 'C20'
RULE = ("generated schemas (single-file, multi-file with includes, isar) are compiled for all back-ends (python, cpp, "
        "cpp_full, prophy) by the CLI in subprocesses under PYTHONHASHSEED in {0, 1, 2, 3, random}, from different "
        "working directories (relative vs absolute input paths), with the command-line order of the inputs permuted, "
        "each independent input alone vs together with others, and twice in one interpreter (prophyc.main called "
        "repeatedly, also after compiling something else); the recorded bytes of every generated file are compared "
        "offline per (input content, options). distinct = (schema hash, run configuration)")
ASSUMPTIONS = [
    "outputs are named by input basename, so runs are compared file by file through their basenames",
    "inputs that include each other are compiled together in every run (their relative order is what is permuted)",
]
TIMEOUT = {'quick': 1500, 'thorough': 10800}
OUTS = ['--python_out', '--cpp_out', '--cpp_full_out', '--prophy_out']


def shards(ctx):
    n = ctx.pick(16, 64)
    return [{'kind': 'det', 'seed': ctx.seed * 1000 + i, 'groups': ctx.pick(2, 8)} for i in range(n)]


def replay_spec(ctx, witness):
    return {'kind': 'det', 'seed': witness.get('seed', 0), 'groups': 8}


def snapshot(d):
    out = {}
    for fn in sorted(os.listdir(d)):
        p = os.path.join(d, fn)
        if os.path.isfile(p):
            with open(p, 'rb') as f:
                out[fn] = f.read()
    return out


def cli_compile(root, tag, inputs, fmt, hashseed, cwd, relative, patch=None, prefill=None):
    out = os.path.join(root, 'out_' + tag)
    os.makedirs(out)
    for fn, data in (prefill or {}).items():
        # the output directory is not empty: it holds older files of the same names
        with open(os.path.join(out, fn), 'wb') as f:
            f.write(data)
    args = []
    for o in OUTS:
        if fmt == 'isar' and o == '--cpp_full_out' and False:
            continue
        args += [o, os.path.relpath(out, cwd) if relative else out]
    if fmt == 'isar':
        args.insert(0, '--isar')
    if patch:
        args += ['--patch', os.path.relpath(patch, cwd) if relative else patch]
    args += [os.path.relpath(p, cwd) if relative else p for p in inputs]
    rc, so, se = pc.run_cli(['--quiet'] + args, cwd=cwd, hashseed=hashseed)
    return rc, se, snapshot(out) if rc == 0 else None


def run_group(acc, wd, gi, rng, seed):
    root = os.path.join(wd, 'g%d' % gi)
    src = os.path.join(root, 'src')
    other = os.path.join(root, 'elsewhere')
    os.makedirs(src)
    os.makedirs(other)
    sel = (gi + seed) % 4           # the variants rotate over shards, so the quick tier (2 groups per shard) has all
    fmt = 'isar' if sel == 3 else 'prophy'
    acc.count('groups:' + fmt)
    patch = None
    # group A: a (possibly split) schema; group B: an unrelated single-file schema
    schA = S.random_schema(random.Random(rng.random()), ntypes=rng.randint(4, 12), prefix='A',
                           allow_shared_sizer=False, cpp_full=True)
    schB = S.random_schema(random.Random(rng.random()), ntypes=rng.randint(3, 8), prefix='B',
                           allow_shared_sizer=False, cpp_full=True)
    inputsA = []
    if fmt == 'isar':
        xml, ptxt = S.to_isar(schA)
        p = os.path.join(src, 'a.xml')
        open(p, 'w').write(xml)
        inputsA = [p]
        if ptxt:
            patch = os.path.join(src, 'a.patch')
            open(patch, 'w').write(ptxt)
        xmlb, ptxtb = S.to_isar(schB)
        if ptxtb:
            # one patch file per invocation: give B's rules to the same file (rules are keyed by node name)
            if patch is None:
                patch = os.path.join(src, 'a.patch')
                open(patch, 'w').write(ptxtb)
            else:
                open(patch, 'a').write(ptxtb)
        # both inputs define a node of the same name that the patch file restructures
        # ... and use the same expression TEXTS over constants of the same names that have different values per file
        shared = ('<constant name="SH_DEPTH" value="%d"/><constant name="SH_SLOTS" value="SH_DEPTH + 1"/>'
                  '<enum name="ShE"><enum-member name="ShE_A" value="SH_DEPTH*2"/></enum>'
                  '<struct name="ShArr"><member name="x" type="u16"><dimension size="SH_DEPTH*3"/></member>'
                  '<member name="y" type="u8"><dimension size="SH_SLOTS"/></member></struct>'
                  '<struct name="Shared"><member name="n" type="u32"/><member name="x" type="u8"><dimension size="3"/>'
                  '</member><member name="t" type="u16"/></struct>\n</x>')
        xml = xml.replace('</x>', shared % 3)
        xmlb = xmlb.replace('</x>', shared % 5)
        open(p, 'w').write(xml)
        patch = patch or os.path.join(src, 'a.patch')
        open(patch, 'a').write('Shared dynamic x n\nShared type t u64\n')
        acc.feature('same-named-patched-node-in-two-inputs')
        pb = os.path.join(src, 'b.xml')
        open(pb, 'w').write(xmlb)
    else:
        if len(schA.defs) >= 3 and sel % 2 == 0:
            for fn, part, incs in make_split(schA, rng):
                p = os.path.join(src, 'a' + fn)
                open(p, 'w').write(file_text(schA, part, incs, prefix=lambda f: 'a' + f))
                inputsA.append(p)
        else:
            # sel 1: two inputs whose names agree up to the first dot
            p = os.path.join(src, 'msg.v1.prophy' if sel == 1 else 'a.prophy')
            open(p, 'w').write(schA.to_prophy())
            inputsA = [p]
        pb = os.path.join(src, 'b-v2.1.prophy' if sel == 2 else 'msg.v2.prophy' if sel == 1 else 'b.prophy')
        open(pb, 'w').write(schB.to_prophy())
        # a file without declarations that both A and B include
        open(os.path.join(src, 'notes.prophy'), 'w').write('// conventions: nothing is declared here\n/* only comments */\n')
        for q in (inputsA[0], pb):
            t_ = open(q).read()
            open(q, 'w').write('#include "notes.prophy"\n' + t_)
        if sel == 1:
            for q in (inputsA[-1], pb):
                open(q, 'a').write('struct Shared { u32 n; u8 x[3]; u16 t; };\n')
            patch = os.path.join(src, 'a.patch')
            open(patch, 'w').write('Shared dynamic x n\nShared type t u64\n')
            acc.feature('same-named-patched-node-in-two-inputs')
    runs = []

    def go(tag, inputs, hashseed='0', cwd=None, relative=False, prefill=None):
        cwd = cwd or src
        rc, se, snap = cli_compile(root, tag, inputs, fmt, hashseed, cwd, relative, patch, prefill)
        acc.ev()
        acc.count('cli_runs')
        acc.sig((gi, seed, tag))
        if rc != 0:
            acc.prereq({'stage': 'cli ' + tag, 'rc': rc, 'stderr': se[-400:]})
            return None
        runs.append((tag, snap))
        return snap

    base = go('base', inputsA + [pb])
    if base is None:
        # the joint run fails: a violation if each side compiles on its own, otherwise a prerequisite problem
        alone = [cli_compile(root, 'pre_' + t, ins, fmt, '0', src, False, patch)[0] for t, ins in (('A', inputsA), ('B', [pb]))]
        if alone == [0, 0]:
            acc.p['prereq'].pop()
            acc.p['counters']['prerequisite_failures'] -= 1
            if not acc.p['counters']['prerequisite_failures']:
                del acc.p['counters']['prerequisite_failures']
            acc.violation(PROP, 'valid-inputs-fail-together',
                          {'seed': seed, 'format': fmt, 'inputs': {os.path.basename(q): open(q).read()[:1500] for q in inputsA + [pb]}})
        return
    for hs in ('1', '2', '3', 'random'):
        go('hashseed-' + hs, inputsA + [pb], hashseed=hs)
    go('other-cwd-relative', inputsA + [pb], cwd=other, relative=True)
    go('src-cwd-relative', inputsA + [pb], cwd=src, relative=True)
    rev = list(reversed(inputsA + [pb]))
    go('reversed-order', rev, hashseed='2')
    sh = inputsA + [pb]
    rng.shuffle(sh)
    go('shuffled-order', sh, hashseed='3')
    # what the output directory held before must not matter: older, longer files that begin like the new ones; files
    # that are a proper prefix of the new ones; unrelated content
    go('outdir-holds-longer-files', inputsA + [pb],
       prefill={fn: d + b'\n\nclass StaleTail(object):\n    pass\n// stale tail\n' for fn, d in base.items()})
    go('outdir-holds-shorter-files', inputsA + [pb], prefill={fn: d[:len(d) // 2] for fn, d in base.items()})
    go('outdir-holds-other-files', inputsA + [pb], hashseed='1', prefill={fn: b'something else\n' for fn in base})
    go('A-alone', inputsA)
    go('B-alone', [pb], hashseed='1')
    # compare everything offline
    ref = base
    for tag, snap in runs[1:]:
        for fn, data in snap.items():
            acc.count('files_compared')
            if fn not in ref:
                acc.violation(PROP, 'run-produces-extra-file:' + tag.split('-')[0], {'run': tag, 'file': fn, 'seed': seed})
                continue
            if data != ref[fn]:
                a, b = ref[fn].decode('utf-8', 'replace').split('\n'), data.decode('utf-8', 'replace').split('\n')
                diff = [(i, x, y) for i, (x, y) in enumerate(zip(a, b)) if x != y][:3]
                ext = fn.split('.', 1)[-1]
                acc.violation(PROP, 'output-differs:%s:%s' % (tag if not tag.startswith('hashseed') else 'hashseed', ext),
                              {'run': tag, 'file': fn, 'first_differences': diff, 'seed': seed,
                               'inputs': {os.path.basename(p): open(p).read()[:3000] for p in inputsA + [pb]}})
        if tag not in ('A-alone', 'B-alone'):
            missing = [fn for fn in ref if fn not in snap]
            if missing:
                acc.violation(PROP, 'run-misses-files:' + tag, {'run': tag, 'missing': missing, 'seed': seed})
    # twice in one interpreter, with something else compiled in between
    out1, out2, out3 = (os.path.join(root, 'inproc%d' % k) for k in (1, 2, 3))
    for o in (out1, out2, out3):
        os.makedirs(o)

    def inproc(out, inputs):
        args = ['--quiet']
        for o in OUTS:
            args += [o, out]
        if fmt == 'isar':
            args.insert(1, '--isar')
        if patch:
            args += ['--patch', patch]
        exc, _, _n = pc.run_main(args + inputs)
        return exc
    e1 = inproc(out1, inputsA + [pb])
    e3 = inproc(out3, [pb])
    e2 = inproc(out2, inputsA + [pb])
    acc.count('in_process_runs', 3)
    if e1 is None and e2 is None:
        s1, s2 = snapshot(out1), snapshot(out2)
        for fn in s1:
            acc.count('files_compared')
            if s1[fn] != s2.get(fn):
                acc.violation(PROP, 'output-differs:second-call-in-one-process:%s' % fn.split('.', 1)[-1],
                              {'file': fn, 'seed': seed})
            if s1[fn] != ref.get(fn):
                acc.violation(PROP, 'output-differs:in-process-vs-cli:%s' % fn.split('.', 1)[-1], {'file': fn, 'seed': seed})
    if len(acc.p['samples']) < 2:
        acc.sample({'inputs': [os.path.basename(p) for p in inputsA + [pb]], 'format': fmt,
                    'runs': [t for t, _ in runs], 'files': {fn: hashlib.md5(d).hexdigest() for fn, d in ref.items()}})
    shutil.rmtree(root, ignore_errors=True)


SACK_SCALARS = ['uint8_t', 'uint16_t', 'uint32_t', 'uint64_t', 'int16_t', 'int32_t', 'float', 'double']


def run_sack(acc, wd, gi, rng, seed):
    """C++ headers as input (--sack): main.hpp includes its sibling "types.h"; an unrelated types.h lies in the other
    working directory. Same outputs whatever the working directory, the spelling of the path, the hash seed."""
    root = os.path.join(wd, 's%d' % gi)
    src, other = os.path.join(root, 'src'), os.path.join(root, 'other')
    os.makedirs(src)
    os.makedirs(other)

    def struct(name, types):
        mem = []
        for i in range(rng.randint(1, 5)):
            t = rng.choice(types)
            mem.append('    %s m%d%s;' % (t, i, '[%d]' % rng.randint(2, 4) if rng.random() < 0.3 else ''))
        return 'struct %s\n{\n%s\n};\n' % (name, '\n'.join(mem))
    types_h = ('#include <stdint.h>\ntypedef %s TId;\nenum Kind { Kind_A = %d, Kind_B = %d };\n' %
               (rng.choice(SACK_SCALARS[:4]), rng.randint(0, 3), rng.randint(4, 900)) +
               struct('Point', SACK_SCALARS + ['TId']) + struct('Pair', SACK_SCALARS + ['TId', 'Point', 'Kind']))
    main_h = ('#include "types.h"\n' + struct('Msg', SACK_SCALARS + ['TId', 'Point', 'Pair', 'Kind']) +
              'union Any\n{\n    uint8_t a;\n    Point p;\n    %s c;\n};\n' % rng.choice(SACK_SCALARS) +
              struct('Outer', ['Msg', 'Any', 'Pair', 'uint8_t']))
    open(os.path.join(src, 'types.h'), 'w').write(types_h)
    open(os.path.join(src, 'main.hpp'), 'w').write(main_h)
    open(os.path.join(other, 'types.h'), 'w').write(
        '#include <stdint.h>\ntypedef uint64_t TId;\nenum Kind { Kind_A = 77 };\nstruct Point { TId q; };\n'
        'struct Pair { Point a; Point b; Point c; };\n')
    main = os.path.join(src, 'main.hpp')
    runs = []
    for tag, cwd, path, hs in (('src-relative', src, 'main.hpp', '0'), ('src-absolute', src, main, '1'),
                               ('other-relative', other, os.path.relpath(main, other), '0'),
                               ('other-absolute', other, main, '2'), ('root-relative', root, 'src/main.hpp', 'random')):
        out = os.path.join(root, 'out_' + tag)
        os.makedirs(out)
        args = ['--quiet', '--sack']
        for o in OUTS:
            args += [o, out]
        rc, so, se = pc.run_cli(args + [path], cwd=cwd, hashseed=hs)
        acc.ev()
        acc.count('cli_runs')
        acc.count('sack_runs')
        acc.sig((gi, seed, 'sack', tag))
        if rc != 0:
            if tag == 'src-relative':
                acc.prereq({'stage': 'cli sack ' + tag, 'rc': rc, 'stderr': se[-400:], 'types.h': types_h, 'main.hpp': main_h})
                return
            acc.violation(PROP, 'sack-input-fails-from-another-directory', {'run': tag, 'rc': rc, 'stderr': se[-500:],
                                                                            'types.h': types_h, 'main.hpp': main_h, 'seed': seed})
            continue
        runs.append((tag, snapshot(out), se))
    ref = runs[0][1]
    if not any(fn.endswith('.py') for fn in ref):
        acc.prereq({'stage': 'sack produced no output', 'files': sorted(ref)})
        return
    for tag, snap, se in runs[1:]:
        for fn in set(ref) | set(snap):
            acc.count('files_compared')
            if ref.get(fn) != snap.get(fn):
                acc.violation(PROP, 'output-differs:sack:%s:%s' % (tag.split('-')[0], fn.split('.', 1)[-1]),
                              {'run': tag, 'file': fn, 'types.h': types_h, 'main.hpp': main_h, 'stderr': se[-300:], 'seed': seed})
    # several headers in one run: main2.hpp (next to its own types.h) and second.hpp in another directory, which takes
    # <types.h> and <shared.h> from the -I directory; both use a union and a namespaced struct of shared.h (types that
    # enter the model through the members using them). Each header alone and both together, in both orders.
    inc, src2 = os.path.join(root, 'inc'), os.path.join(root, 'src2')
    os.makedirs(inc)
    os.makedirs(src2)
    open(os.path.join(inc, 'types.h'), 'w').write(
        '#include <stdint.h>\ntypedef uint16_t TId;\nenum Kind { Kind_A = 5, Kind_B = 6 };\n'
        'struct Point { TId a; uint8_t b; };\nstruct Pair { Point p; Kind k; };\n')
    open(os.path.join(inc, 'shared.h'), 'w').write(
        '#include <stdint.h>\nunion SharedU\n{\n    uint8_t a;\n    uint32_t b;\n};\n'
        'namespace geo { struct Pt { uint16_t x; uint8_t y; }; }\n')
    open(os.path.join(src, 'main2.hpp'), 'w').write(
        '#include "types.h"\n#include <shared.h>\n' + struct('Msg2', SACK_SCALARS + ['TId', 'Point', 'Kind']) +
        'struct UsesShared\n{\n    SharedU u;\n    geo::Pt p;\n    TId t;\n};\n')
    open(os.path.join(src2, 'second.hpp'), 'w').write(
        '#include <types.h>\n#include <shared.h>\n' + struct('Sec', SACK_SCALARS + ['TId', 'Point', 'Pair', 'Kind']) +
        'struct SecShared\n{\n    geo::Pt p[2];\n    SharedU u;\n    Pair q;\n};\n')
    m2, sec = os.path.join(src, 'main2.hpp'), os.path.join(src2, 'second.hpp')
    multi = {}
    for tag, inputs in (('alone-main2', [m2]), ('alone-second', [sec]), ('together-main2-second', [m2, sec]),
                        ('together-second-main2', [sec, m2])):
        out = os.path.join(root, 'out_' + tag)
        os.makedirs(out)
        args = ['--quiet', '--sack', '-I', inc]
        for o in OUTS:
            args += [o, out]
        rc, so, se = pc.run_cli(args + inputs, cwd=root, hashseed=str(rng.randint(0, 3)))
        acc.ev()
        acc.count('cli_runs')
        acc.count('sack_runs_with_several_headers' if len(inputs) > 1 else 'sack_runs')
        acc.sig((gi, seed, 'sack', tag))
        multi[tag] = (rc, se, snapshot(out) if rc == 0 else None)
    if multi['alone-main2'][0] != 0 or multi['alone-second'][0] != 0:
        acc.prereq({'stage': 'cli sack (header alone)', 'stderr': (multi['alone-main2'][1] + multi['alone-second'][1])[-600:]})
    else:
        for tag in ('together-main2-second', 'together-second-main2'):
            rc, se, snap = multi[tag]
            if rc != 0:
                acc.violation(PROP, 'sack-headers-fail-together', {'run': tag, 'rc': rc, 'stderr': se[-500:], 'seed': seed})
                continue
            for alone in ('alone-main2', 'alone-second'):
                for fn, data in multi[alone][2].items():
                    acc.count('files_compared')
                    if snap.get(fn) != data:
                        acc.violation(PROP, 'output-depends-on-other-inputs-of-the-run:sack:%s' % fn.split('.', 1)[-1],
                                      {'run': tag, 'file': fn, 'seed': seed})
    shutil.rmtree(root, ignore_errors=True)


def run_layouts(acc, wd, gi, rng, seed):
    """Independent inputs in different directories whose includes resolve through the includer's own directory
    (same include string, different sibling files) and through a trailing -I directory; alone vs together, every
    order. Whatever else is compiled in the same run, each input must produce the same bytes."""
    root = os.path.join(wd, 'l%d' % gi)
    dirs = {n: os.path.join(root, n) for n in ('alpha', 'beta', 'gamma', 'inc0', 'inc1', 'inc2', 'inc3', 'shared', 'elsewhere')}
    for d in dirs.values():
        os.makedirs(d)
    # one file, reached through a symbolic link of the same name in every input directory; it includes ITS sibling
    # "types.prophy", which is a different file in each of those directories
    open(os.path.join(dirs['shared'], 'frame_target.prophy'), 'w').write(
        '#include "types.prophy"\nstruct Frame { u16 cells[LINK_LEN]; u8 t; };\n')
    # a working directory that holds a same-named, different common.prophy (only -I directories may supply it)
    open(os.path.join(dirs['elsewhere'], 'common.prophy'), 'w').write('const SHARED_LEN = 9;\nstruct Shared { u64 x; };\n')
    inputs = {}
    for k, n in enumerate(('alpha', 'beta', 'gamma')):
        # sibling file with the SAME name in every directory, different content
        open(os.path.join(dirs[n], 'types.prophy'), 'w').write(
            'const LEN_%s = %d;\nconst LINK_LEN = %d;\nstruct Item_%s { u%d v; };\n' % (n, k + 2, k + 3, n, 8 << k))
        os.symlink(os.path.join(dirs['shared'], 'frame_target.prophy'), os.path.join(dirs[n], 'frame.prophy'))
        body = ('#include "types.prophy"\n#include "common.prophy"\n#include "frame.prophy"\n'
                'struct Main_%s { Item_%s items[LEN_%s]; Shared s; u16 tail[SHARED_LEN]; Frame f; };\n' % (n, n, n))
        p = os.path.join(dirs[n], n + '.prophy')
        open(p, 'w').write(body)
        inputs[n] = p
    # common.prophy lives only in the LAST -I directory
    open(os.path.join(dirs['inc1'], 'common.prophy'), 'w').write(
        'const SHARED_LEN = %d;\nstruct Shared { u32 x; u8 y; };\n' % rng.randint(2, 5))
    open(os.path.join(dirs['inc0'], 'unused.prophy'), 'w').write('const UNUSED = 1;\n')
    # later -I directories hold same-named, different files: the first directory on the command line that has it wins
    open(os.path.join(dirs['inc2'], 'common.prophy'), 'w').write('const SHARED_LEN = 7;\nstruct Shared { u16 x; };\n')
    open(os.path.join(dirs['inc3'], 'common.prophy'), 'w').write('const SHARED_LEN = 8;\nstruct Shared { u64 x; u8 y; };\n')
    results = {}

    def go(tag, names, hashseed='0', cwd=None):
        out = os.path.join(root, 'out_' + tag)
        os.makedirs(out)
        args = ['--quiet', '-I', dirs['inc0'], '-I', dirs['inc1'], '-I', dirs['inc2'], '-I', dirs['inc3']]
        for o in OUTS:
            args += [o, out]
        rc, so, se = pc.run_cli(args + [inputs[n.split('@')[0]] for n in names], cwd=cwd or root, hashseed=hashseed)
        acc.ev()
        acc.count('cli_runs')
        acc.count('layout_runs')
        acc.sig((gi, seed, 'layout', tag))
        results[tag] = (rc, se, snapshot(out) if rc == 0 else None)
    for n in inputs:
        go('alone-' + n, [n])
    for hs in ('1', '2', '3', 'random'):
        go('alone-alpha@' + hs, ['alpha'], hashseed=hs)
    go('togetherFromElsewhere-alpha-gamma', ['alpha', 'gamma'], cwd=dirs['elsewhere'])
    import itertools
    orders = list(itertools.permutations(['alpha', 'beta', 'gamma']))
    rng.shuffle(orders)
    for order in orders[:4] + [('alpha', 'beta'), ('beta', 'alpha'), ('gamma', 'alpha')]:
        go('together-' + '-'.join(order), list(order), hashseed=str(rng.randint(0, 3)))
    for tag, (rc, se, snap) in results.items():
        if rc != 0:
            kind = 'alone' if tag.startswith('alone') else 'together'
            acc.violation(PROP, 'valid-inputs-fail-%s' % kind, {'run': tag, 'rc': rc, 'stderr': se[-500:], 'seed': seed})
            continue
        if tag.startswith('alone') and '@' not in tag:
            continue
        for n in tag.split('@')[0].split('-')[1:]:
            ref = results['alone-' + n][2]
            if ref is None:
                continue
            for fn, data in ref.items():
                if fn.split('.')[0] in ('types', 'common'):
                    continue
                acc.count('files_compared')
                if snap.get(fn) != data:
                    acc.violation(PROP, ('output-differs:hashseed:%s' if '@' in tag else
                                         'output-depends-on-other-inputs-of-the-run:%s') % fn.split('.', 1)[-1],
                                  {'run': tag, 'file': fn, 'seed': seed})
    shutil.rmtree(root, ignore_errors=True)


def run_shard(spec):
    acc = Acc()
    rng = random.Random(spec['seed'])
    with C.Workdir() as wd:
        for gi in range(spec['groups']):
            run_group(acc, wd, gi, rng, spec['seed'])
        run_layouts(acc, wd, 0, rng, spec['seed'])
        run_sack(acc, wd, 0, rng, spec['seed'])
    return acc.done()


def finish(ctx, merged, specs):
    missing = [k for k in ('cli_runs', 'files_compared', 'in_process_runs', 'layout_runs', 'sack_runs', 'sack_runs_with_several_headers', 'groups:isar', 'groups:prophy') if not merged['counters'].get(k)]
    if merged['counters'].get('prerequisite_failures', 0) > merged['counters'].get('cli_runs', 0) // 4:
        missing.append('too many prerequisite failures')
    if 'same-named-patched-node-in-two-inputs' not in merged.get('features', []) and not (specs and specs[0]['kind'] == 'replay'):
        missing.append('same-named-patched-node-in-two-inputs')
    if missing and not merged['inconclusive']:
        merged['inconclusive'] = 'coverage floor not met: %s' % missing
