"""Workload pieces shared by several checks."""
import hashlib
import random
import shutil
import tempfile

from .. import schema as S


def chunks(lst, n):
    for i in range(0, len(lst), n):
        yield lst[i:i + n]


def seq_workload(ctx, per_shard=400, len3_quick=1200, tails=True):
    """Tag sequences for the exhaustive-short-sequence workload, split into shard specs.
    quick: all sequences of length <= 2, a seeded sample of length 3; thorough: all of length <= 3."""
    rng = random.Random(ctx.seed * 7919 + 17)
    seqs = [list(t) for t in S.all_sequences(2)]
    if ctx.quick:
        seqs += [[rng.choice(S.PALETTE_TAGS) for _ in range(3)] for _ in range(len3_quick)]
    else:
        seqs = [list(t) for t in S.all_sequences(3)]
    if tails:
        g = list(S.GREEDY_MAP)
        seqs += [[t] for t in g]
        seqs += [[a, t] for a in S.PALETTE_TAGS for t in g]
        pairs = [[a, b] for a in S.PALETTE_TAGS for b in S.PALETTE_TAGS]
        if ctx.quick:
            pairs = rng.sample(pairs, 250)
        seqs += [p + [rng.choice(g)] for p in pairs]
    rng.shuffle(seqs)
    return list(chunks(seqs, per_shard))


def exhaustive_note(ctx):
    if ctx.quick:
        return ("all %d^1 + %d^2 member sequences over the palette enumerated completely; length 3 sampled"
                % (len(S.PALETTE_TAGS), len(S.PALETTE_TAGS)))
    return "all member sequences of length 1..3 over the %d-kind palette enumerated completely" % len(S.PALETTE_TAGS)


def span_sig(spans):
    return hashlib.md5(repr([(k, w) for _, w, k, _ in spans]).encode()).hexdigest()[:12]


def nontrivial(spans, stiff):
    real = [s for s in spans if s[2] != 'pad']
    return len(real) >= 2 and (any(s[2] == 'pad' for s in spans) or stiff != S.FIXED_S)


class Workdir(object):
    def __enter__(self):
        self.d = tempfile.mkdtemp(prefix='pvfw_')
        return self.d

    def __exit__(self, *a):
        shutil.rmtree(self.d, ignore_errors=True)


def first_diff(a, b):
    n = min(len(a), len(b))
    for i in range(n):
        if a[i] != b[i]:
            return i
    return n if len(a) != len(b) else None


def span_at(spans, off):
    for o, w, k, p in spans:
        if o <= off < o + w:
            return k, p
    return 'past-end', ''


def hexs(b, limit=200):
    h = bytes(b).hex()
    return h if len(h) <= 2 * limit else h[:2 * limit] + '...'


def jsonable(v):
    if isinstance(v, dict):
        return {k: jsonable(x) for k, x in v.items()}
    if isinstance(v, tuple):
        return {'$u': [v[0], jsonable(v[1])]}
    if isinstance(v, list):
        return [jsonable(x) for x in v]
    if isinstance(v, (bytes, bytearray)):
        return {'$b': bytes(v).hex()}
    if isinstance(v, float):
        if v != v or v in (float('inf'), float('-inf')):
            return {'$f': repr(v)}
    return v


def unjson(v):
    """Inverse of jsonable for reference values."""
    if isinstance(v, dict):
        if set(v) == {'$u'}:
            return (v['$u'][0], unjson(v['$u'][1]))
        if set(v) == {'$b'}:
            return bytes.fromhex(v['$b'])
        if set(v) == {'$f'}:
            return float(v['$f'])
        return {k: unjson(x) for k, x in v.items()}
    if isinstance(v, list):
        return [unjson(x) for x in v]
    return v


# ---------------------------------------------------------------------------
# Python-codec case iteration shared by C01/C02/C19/C11...
# ---------------------------------------------------------------------------

def py_specs(ctx, rand_quick=80, rand_thorough=2400, per_shard_seq=400, nrand_quick=2, nrand_thorough=4,
             wrap_every=4, tails=True):
    """Shard specs: exhaustive sequences (some shards with wrappers) + random deep schemas."""
    specs = []
    k = 0
    for i, ch in enumerate(seq_workload(ctx, per_shard_seq, tails=tails)):
        wrap = (i % wrap_every == 0) or not ctx.quick
        # wrapped structs come with ~7 wrapper types each: split those chunks to keep shards balanced
        for sub in (chunks(ch, max(1, per_shard_seq // 6)) if wrap else [ch]):
            specs.append({'kind': 'seq', 'seqs': sub, 'wrap': wrap,
                          'seed': ctx.seed * 1000 + k, 'nrand': ctx.pick(nrand_quick, nrand_thorough)})
            k += 1
    nr = ctx.pick(rand_quick, rand_thorough)
    seeds = [ctx.seed * 100000 + k for k in range(nr)]
    for i, ch in enumerate(chunks(seeds, max(1, nr // 16))):
        specs.append({'kind': 'rand', 'seeds': ch, 'seed': ctx.seed * 1000 + 500 + i,
                      'nrand': ctx.pick(nrand_quick, nrand_thorough)})
    return specs


def replay_spec_generic(ctx, witness):
    return {'kind': 'replay', 'schema': witness['schema_json'], 'type': witness['type'],
            'value': witness.get('value'), 'seed': 0, 'nrand': 0, 'extra': witness}


def iter_py_schemas(spec, acc, workdir, prefer_cpp_full=False):
    """Yield (schema, names, tagmap, module, nodes, rng) for each schema of a shard spec.
    Prerequisite failures (prophyc/import) are recorded in acc and skipped."""
    from .. import pyrt
    rng = random.Random(spec['seed'])
    if spec['kind'] == 'seq':
        sch, names, tagmap = S.seq_schema([tuple(x) for x in spec['seqs']], wrap=spec.get('wrap', False))
        for d in adversarial_defs():
            sch.add(d)
            if d.kind in ('struct', 'union'):
                names.append(d.name)
                tagmap[d.name] = ['adversarial']
        todo = [(sch, names, tagmap)]
    elif spec['kind'] == 'rand':
        todo = []
        for sd in spec['seeds']:
            r = random.Random(sd)
            sch = S.random_schema(r, cpp_full=prefer_cpp_full)
            names = [d.name for d in sch.composites()]
            todo.append((sch, names, {n: ['rand:%d' % sd] for n in names}))
    else:
        sch = S.Schema.from_json(spec['schema'])
        todo = [(sch, [spec['type']], {spec['type']: ['replay']})]
    for sch, names, tagmap in todo:
        try:
            mod, nodes = pyrt.compile_python(sch.to_prophy(), workdir)
        except pyrt.CompileFailed as e:
            acc.prereq({'stage': e.stage, 'error': str(e)[:300], 'schema': sch.to_prophy()[:2000]})
            continue
        yield sch, names, tagmap, mod, nodes, rng


def default_reaches_unsized_bytes(sch, tname, _depth=0):
    """True when the default value of tname contains a bytes field that is not of fixed size
    (dynamic, limited, greedy or externally sized) reachable without enabling an optional,
    adding array elements or switching a union arm."""
    r = sch.resolve(tname)
    if isinstance(r, str) or r.kind == 'enum' or _depth > 20:
        return False
    if r.kind == 'union':
        return default_reaches_unsized_bytes(sch, r.arms[0][1], _depth + 1)
    for m in r.members:
        if m.type == 'byte':
            if m.kind != S.FIXED:
                return True
        elif m.kind in (S.PLAIN, S.FIXED) and default_reaches_unsized_bytes(sch, m.type, _depth + 1):
            return True
    return False


def adversarial_defs():
    """Hand-built delicate structures (Python/raw only: arrays sharing a sizer). Added to every sequence schema.
    Each one exists because a seeded change needed exactly this shape to manifest."""
    M = S.Member
    return [
        # two arrays share the sizer n; a nested struct between them has a bound field of the same NAME (c)
        S.Struct('AdvIn', [M('m', 'u8'), M('c', 'u8', S.EXT, sizer='m')]),
        S.Struct('AdvOut', [M('n', 'u8'), M('a', 'u8', S.EXT, sizer='n'), M('inner', 'AdvIn'),
                            M('c', 'u8', S.EXT, sizer='n')]),
        # sizer declared after the first dynamic field, another dynamic field between sizer and array
        S.Struct('AdvParts', [M('a', 'u8', S.DYNAMIC), M('n', 'u32'), M('m', 'u16'), M('b', 'u8', S.EXT, sizer='n'),
                              M('c', 'u16', S.EXT, sizer='m')]),
        # union with a non-zero first discriminator / enum with non-zero first enumerator inside limited arrays
        S.Enum('AdvE', [('AdvE_5', 5), ('AdvE_9', 9)]),
        S.Union('AdvU', [(7, 'AdvE', 'e'), (8, 'u16', 'h')]),
        S.Struct('AdvElem', [M('e', 'AdvE'), M('u', 'AdvU')]),
        S.Struct('AdvLim', [M('p', 'u8'), M('w', 'AdvElem', S.LIMITED, 3), M('x', 'AdvU', S.LIMITED, 2), M('q', 'u16')]),
        # block after a dynamic field whose alignment comes only from an optional of a 1/2-byte type that is not first
        S.Struct('AdvOptBlk', [M('a', 'u8', S.DYNAMIC), M('b', 'u8'), M('c', 'u8', S.OPTIONAL)]),
        S.Struct('AdvOptBlk2', [M('n', 'u8'), M('items', 'u8', S.EXT, sizer='n'), M('flag', 'u8'), M('opt', 'u16', S.OPTIONAL),
                                M('z', 'u8')]),
        S.Struct('AdvOptBlkOuter', [M('p', 'u16'), M('t', 'AdvOptBlk2'), M('q', 'u8')]),
        # nested enums at depth >= 1 (rendering), optional enum, enum arrays
        # unions whose arms are a struct and another union, as array elements directly and inside a struct
        S.Struct('AdvPt', [M('x', 'u16'), M('y', 'u8')]),
        S.Union('AdvUS', [(1, 'u8', 'a'), (2, 'AdvPt', 'pt'), (3, 'AdvU', 'inner')]),
        S.Struct('AdvHold', [M('k', 'u8'), M('u', 'AdvUS')]),
        S.Struct('AdvUArr', [M('us', 'AdvUS', S.DYNAMIC), M('hs', 'AdvHold', S.LIMITED, 3), M('t', 'u8')]),
        # a scalar array and a struct array counted by the same field (Python only); elements made of fixed bytes only
        S.Struct('AdvTrack', [M('n', 'u8'), M('ids', 'u16', S.EXT, sizer='n'), M('points', 'AdvPt', S.EXT, sizer='n')]),
        S.Struct('AdvMac', [M('addr', 'byte', S.FIXED, 6)]),
        S.Struct('AdvHosts', [M('macs', 'AdvMac', S.DYNAMIC), M('lim', 'AdvMac', S.LIMITED, 3), M('t', 'u8')]),
        S.Struct('AdvDeep', [M('b', 'byte', S.DYNAMIC), M('el', 'AdvElem'), M('oe', 'AdvE', S.OPTIONAL),
                             M('ea', 'AdvE', S.FIXED, 2), M('z', 'u8')]),
    ]
