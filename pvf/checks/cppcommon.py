"""Shared workload for the checks that compile and run the generated C++ full codec."""
import os
import random

from .. import schema as S, wire as W, cppdrv
from . import common as C


def merged_random_schema(seeds, cpp_full=True, allow_float=True):
    sch = S.Schema()
    names = []
    tagmap = {}
    for i, sd in enumerate(seeds):
        sub = S.random_schema(random.Random(sd), cpp_full=cpp_full, allow_float=allow_float, prefix='R%d' % i,
                              allow_shared_sizer=not cpp_full)
        for d in sub.defs:
            sch.add(d)
            if d.kind in ('struct', 'union'):
                names.append(d.name)
                tagmap[d.name] = ['rand:%d' % sd]
    return sch, names, tagmap


def cpp_specs(ctx, files_quick=7, per_file=80, rand_files_quick=2, rand_per_file=10, rand_files_thorough=40,
              tails=True, tag='cpp'):
    """One shard = one schema file compiled with its driver."""
    rng = random.Random(ctx.seed * 104729 + 5)
    specs = []
    chunks = C.seq_workload(ctx, per_file, tails=tails)
    if ctx.quick:
        # keep every length-1 sequence and a seeded sample of the rest
        flat = [s for ch in chunks for s in ch]
        ones = [s for s in flat if len(s) == 1]
        rest = [s for s in flat if len(s) > 1]
        rng.shuffle(rest)
        flat = ones + rest[:files_quick * per_file - len(ones)]
        rng.shuffle(flat)
        chunks = list(C.chunks(flat, per_file))
    for i, ch in enumerate(chunks):
        specs.append({tag: True, 'kind': 'seq', 'seqs': ch, 'wrap': False, 'seed': ctx.seed * 1000 + i,
                      'O1': (not ctx.quick) and i % 12 == 5, 'split': i % 3 == 1})
    # wrapped variants: few sequences, many wrapper types
    nwrap = ctx.pick(1, 24)
    for i in range(nwrap):
        seqs = [[rng.choice(S.PALETTE_TAGS) for _ in range(rng.randint(1, 3))] for _ in range(14)]
        specs.append({tag: True, 'kind': 'seq', 'seqs': seqs, 'wrap': True, 'seed': ctx.seed * 1000 + 300 + i,
                      'split': i % 2 == 0})
    # canary: member sequences that reach the recorded known findings of the C++ back-ends, so that a
    # KNOWN-FINDING line is printed on every run while the defect persists (and none once it is repaired)
    specs.append({tag: True, 'kind': 'seq', 'wrap': True, 'seed': ctx.seed * 1000 + 999, 'canary': True,
                  'seqs': [['FxO<2>'], ['bytes<5>', 'Fx2*'], ['Dy1', 'u8<>', 'Fx1'], ['u8<>', 'Fx2[2]', 'bytes<...>'],
                           ['u64<>', 'u8<>', 'u8'],
                           # structs that are dynamic only through a nested, non-last dynamic member: their wrappers
                           # (_WN: fields after it, _WD: elements of an array) are three-level nestings
                           ['Dy4', 'u8'], ['u8', 'Dy4', 'u16'], ['Dy8', 'Fx2'], ['Dy1', 'u64'],
                           # a block after a dynamic field whose alignment comes only from the 4-byte flag of a small
                           # optional that is not the block's first member
                           ['u8<>', 'u8', 'u16*'], ['u8<>', 'u8', 'u8*'], ['u16<@>', 'u8', 'Fx2*'], ['bytes<>', 'u16', 'En*'],
                           # limited array followed by a smaller- and then a larger-aligned member
                           ['u16<2>', 'u8', 'u32'], ['bytes<5>', 'u8', 'u64'], ['u8<>', 'u8', 'FxO<2>', 'u8', 'u64'],
                           # dynamic structs ending in a small optional (size 5/6, alignment 4): arrays of them (_WD)
                           ['u8<>', 'u8*'], ['u16<@>', 'u16*'], ['bytes<>', 'u32', 'u8*'],
                           # own dynamic array + nested unlimited tail, used as the last member of another struct (_WT)
                           ['u8<>', 'Gr4'], ['u16<@>', 'Gr1'], ['Dy4', 'u8', 'Gr4'],
                           # optionals whose 8-byte alignment is only visible through one or two typedef levels
                           ['u8', 'TU64*', 'u8'], ['TTU64*', 'u16'], ['u8', 'TFx8*'], ['TTFx8*', 'TTU64*', 'u8'],
                           ['u8', 'TTU64', 'u8'], ['u16', 'TTU64[2]', 'u8<>', 'TTU64*'],
                           # optionals whose value type has a C++ object size different from its wire size
                           ['Un4*', 'u8'], ['u8', 'Un8*', 'u16'], ['Un12*'], ['u8', 'FxO*', 'u8'], ['Un4*', 'FxO*', 'u8<>'],
                           # ten levels of nesting (rendering indentation, recursion in codecs)
                           ['u8', 'Deep10'], ['Deep10<>', 'u8']]})
    # every scalar type in every member form: present/absent optionals between other members, arrays, plain fields
    # (codec tables have one row per scalar type)
    sc = []
    for t in S.SCALARS:
        sc += [['u8', t + '*', 'u8'], [t + '*', 'u32'], ['u8<>', t + '*', t], [t + '[2]', 'u8', t + '<>', 'u8', t + '<3>']]
    for i, ch in enumerate(C.chunks(sc, 20)):
        specs.append({tag: True, 'kind': 'seq', 'wrap': i == 0, 'seed': ctx.seed * 1000 + 950 + i, 'seqs': ch})
    nrf = ctx.pick(rand_files_quick, rand_files_thorough)
    for i in range(nrf):
        seeds = [ctx.seed * 100000 + 7000 + i * rand_per_file + k for k in range(rand_per_file)]
        specs.append({tag: True, 'kind': 'rand', 'seeds': seeds, 'seed': ctx.seed * 1000 + 600 + i, 'split': i % 2 == 1})
    return specs


def build_schema(spec):
    if spec['kind'] == 'seq':
        return S.seq_schema([tuple(x) for x in spec['seqs']], wrap=spec.get('wrap', False))
    if spec['kind'] == 'rand':
        return merged_random_schema(spec['seeds'], allow_float=spec.get('allow_float', True))
    sch = S.Schema.from_json(spec['schema'])
    return sch, [spec['type']], {spec['type']: ['replay']}


# an unrelated schema generated FIRST in every worker process: the helper types' names with other sizes, alignments and
# stiffness, used in the positions where a generator might remember something by type name
DECOY_FULL = ('struct Fx2 { u64 a; u64 b; u8 c; };\nstruct Fx8 { u8 a; };\nstruct Fx1 { u32 a; };\nstruct FxO { u8 a; };\n'
              'enum En { En_A = 7 };\nstruct Dy4 { u64 q; u64 x<>; };\ntypedef Dy4 TDy4;\ntypedef Fx2 TFx2;\n'
              'struct Dy8 { u8 x<>; };\nstruct Dy1 { u64 x<>; };\nunion Un4 { 1: u64 a; };\nunion Un8 { 1: u8 a; };\n'
              'union Un12 { 1: u8 a; };\nstruct Fx12 { u8 a; };\ntypedef u8 TU64;\ntypedef TU64 TTU64;\n'
              'typedef Fx8 TFx8;\ntypedef TFx8 TTFx8;\n'
              'struct DecoyA { Fx2 a<>; Fx8 b<>; Fx1 c<>; En d<>; };\nstruct DecoyB { Dy4 a<>; };\nstruct DecoyC { TDy4 a<>; };\n'
              'struct DecoyD { u8 p; Fx2 g<...>; };\nstruct DecoyE { TU64* a; TTU64* b; Fx8* c; TFx8* d; Un8* e; Un4* f; FxO* g; TFx2* h; u8 z; };\n'
              'struct DecoyF { Fx2 a[2]; FxO b<2>; Un12 c; Fx12 d; TTFx8 e; };\n')
_decoy_done = []


def open_full(spec, acc, wd, want_python=False):
    """Compile the schema's C++ full codec with the driver. Returns dict or None on prerequisite failure."""
    sch, names, tagmap = build_schema(spec)
    text = sch.to_prophy()
    if not _decoy_done and spec['kind'] != 'replay':
        _decoy_done.append(1)
        wd0 = os.path.join(wd, 'decoy_first')
        os.makedirs(wd0)
        try:
            cppdrv.prophyc_cpp(DECOY_FULL, wd0, name='decoy', full=True, raw=True, python=want_python)
            acc.count('decoy_compiled_first_in_the_process')
        except cppdrv.BuildFailed as e:
            acc.prereq({'stage': e.stage, 'error': 'decoy: ' + str(e)[-800:]})
    files = None
    if spec.get('split') and len(sch.defs) >= 2:
        # the schema cut into an included file (a prefix of the definitions) and the file that includes it, both
        # inputs of one prophyc run: the included definitions are reached twice (as an input and through the include)
        k = random.Random(spec['seed']).randint(1, len(sch.defs) - 1)
        first = set(d.name for d in sch.defs[:k])
        files = {'schinc.prophy': sch.to_prophy(only=first)}
        text = '#include "schinc.prophy"\n' + sch.to_prophy(only=set(d.name for d in sch.defs) - first)
        acc.count('schema_files_split_over_an_include')
    try:
        gen, nodes = cppdrv.prophyc_cpp(text, wd, full=True, python=want_python, files=files)
        src = os.path.join(wd, 'drv.cpp')
        with open(src, 'w') as f:
            f.write(cppdrv.full_driver_source(sch, names))
        binary = os.path.join(wd, 'drv')
        # thorough tier: a sample of the files is rebuilt at -O1 (different inlining exposes different UB to the sanitizers)
        cppdrv.compile_cpp([src, os.path.join(gen, 'sch.ppf.cpp')] + ([os.path.join(gen, 'schinc.ppf.cpp')] if files else []),
                           binary, [gen], extra=(['-O1'] if spec.get('O1') else []))
        if spec.get('O1'):
            acc.count('schema_files_compiled_at_O1')
    except cppdrv.BuildFailed as e:
        acc.prereq({'stage': e.stage, 'error': str(e)[-1500:], 'schema': text[:1500]})
        return None
    mod = None
    if want_python:
        import importlib
        import sys
        pkg = 'pvfcpp%d' % os.getpid()
        os.rename(gen, os.path.join(wd, pkg))
        gen = os.path.join(wd, pkg)
        open(os.path.join(gen, '__init__.py'), 'w').close()
        sys.path.insert(0, wd)
        if files:
            sys.path.insert(0, gen)      # the generated module imports its include by its plain name
        importlib.invalidate_caches()
        try:
            mod = importlib.import_module(pkg + '.sch')
        except BaseException as e:  # noqa
            acc.prereq({'stage': 'import', 'error': '%s: %s' % (type(e).__name__, e)})
    acc.count('schema_files_compiled')
    acc.count('types_compiled', len(names))
    return {'sch': sch, 'names': names, 'tagmap': tagmap, 'binary': binary, 'nodes': nodes, 'mod': mod,
            'wire': W.Wire(sch), 'rng': random.Random(spec['seed'])}


def crash_mechanism(r):
    cls = cppdrv.san_class(r['crash']) or 'process-died:rc=%s' % r.get('rc')
    frames = cppdrv.san_frames(r['crash'])
    where = ''
    for f in frames:
        for key in ('do_decode', 'decode_int', 'decoder', 'encode_int', 'encoder', 'do_encode', 'print', 'resize',
                    'get_byte_size'):
            if key in f:
                where = key
                break
        if where:
            break
    return cls + ('@' + where if where else ''), frames


# ---------------------------------------------------------------------------
# Known-finding predicates for the C++ full codec
# ---------------------------------------------------------------------------

OPT_ALIGN_MECH = 'cpp-optional-alignment-taken-from-cpp-object'


def cpp_object_align(sch, tname, _memo=None):
    """Alignment of the C++ *object* the full generator emits for a type (x86-64)."""
    r = sch.resolve(tname)
    if isinstance(r, str):
        return S.INTS[r][0] if r in S.INTS else (S.FLOATS[r] if r in S.FLOATS else 1)
    if r.kind == 'enum':
        return 4
    if r.kind == 'union':
        return max([4] + [cpp_object_align(sch, a[1]) for a in r.arms])
    sizers = set(m.sizer for m in r.members if m.kind == S.EXT)
    al = 1
    for m in r.members:
        if m.name in sizers:
            continue
        if m.kind in (S.LIMITED, S.DYNAMIC, S.EXT, S.GREEDY):
            al = max(al, 8)            # std::vector
        else:
            al = max(al, cpp_object_align(sch, m.type) if m.type != 'byte' else 1)
    return al


def reaches_misaligned_optional(sch, w, tname, _seen=None):
    """True when encoding/decoding tname passes through optional<T> whose C++ object alignment (what
    prophy::detail::alignment<T> measures) exceeds the wire alignment max(4, align(T))."""
    _seen = _seen if _seen is not None else set()
    r = sch.resolve(tname)
    if isinstance(r, str) or r.kind == 'enum' or r.name in _seen:
        return False
    _seen.add(r.name)
    if r.kind == 'union':
        return any(reaches_misaligned_optional(sch, w, a[1], _seen) for a in r.arms)
    for m in r.members:
        if m.type == 'byte':
            continue
        if m.kind == S.OPTIONAL and cpp_object_align(sch, m.type) > max(4, w.tinfo(m.type)[1]):
            return True
        if reaches_misaligned_optional(sch, w, m.type, _seen):
            return True
    return False


def alloc_factors(env):
    """Per top-level type: 64 + twice the largest sizeof() among the composite types reachable from it.
    A decoder that sizes vectors from element counts bounded by the input allocates at most that per input byte."""
    sch, names = env['sch'], env['names']
    sizes = cppdrv.type_sizes(env['binary'])
    by_name = {k: v for k, v in sizes.items() if isinstance(k, str)}
    by_name.update({n: sizes.get(i, (0, 0))[0] for i, n in enumerate(names) if i in sizes})
    memo = {}

    def reach(tname, depth=0):
        r = sch.resolve(tname) if tname != 'byte' else 'byte'
        if isinstance(r, str) or r.kind == 'enum' or depth > 30:
            return 8
        if r.name in memo:
            return memo[r.name]
        memo[r.name] = by_name.get(r.name, 64)
        subs = [a[1] for a in r.arms] if r.kind == 'union' else [m.type for m in r.members]
        best = max([by_name.get(r.name, 64)] + [reach(t, depth + 1) for t in subs])
        memo[r.name] = best
        return best
    # twice the largest element: a vector that grows inside a long-lived object doubles its capacity
    return {n: 64 + 2 * reach(n) for n in names}


PART_ALIGN_MECH = 'swap-aligns-end-of-part-to-its-own-alignment'
GREEDY_RET_MECH = 'swap-returns-greedy-member-address-rounded-up-to-struct-alignment'


def reaches_decreasing_part_alignment(sch, w, tname, _seen=None):
    """True when swapping tname walks a struct with two consecutive partN blocks (N >= 2) whose alignment
    decreases: the generated part swap returns its end aligned to the part's own alignment."""
    _seen = _seen if _seen is not None else set()
    r = sch.resolve(tname)
    if isinstance(r, str) or r.kind == 'enum' or r.name in _seen:
        return False
    _seen.add(r.name)
    if r.kind == 'union':
        return any(reaches_decreasing_part_alignment(sch, w, a[1], _seen) for a in r.arms)
    L = w.layout(r.name)
    for i in range(1, len(L.blocks) - 1):
        if L.block_align[i + 1] < L.block_align[i]:
            return True
    return any(reaches_decreasing_part_alignment(sch, w, m.type, _seen) for m in r.members if m.type != 'byte')
