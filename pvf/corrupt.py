"""Corruption families for decoders (C06/C07), guided by the reference role map."""
import struct as _struct

CONTROL = ('counter', 'flag', 'disc', 'enum', 'sizer')
FMTU = {1: 'B', 2: 'H', 4: 'I', 8: 'Q'}


def control_values(limit_hint, rng):
    vals = [0, 1, 2, 3, 4, 5, 6, 255, 256, 65535, 65536, 65537, 1 << 31, (1 << 32) - 1, rng.randrange(1 << 32)]
    if limit_hint:
        vals += [limit_hint, limit_hint + 1]
    return vals


def wide_values(orig, w):
    """Width-aware control words: sign/top bits of the word set on the valid value, and counts whose product
    with a small element size wraps around the word (or around 64 bits) to a small number."""
    bits = 8 * w
    vals = [orig ^ (1 << (bits - 1)), orig | (1 << (bits - 2)), orig ^ (1 << (bits - 3)), (1 << (bits - 1)) - 1,
            1 << (bits - 1), (1 << bits) - 1, (1 << bits) - 2]
    for span in set((bits, 64)) if w >= 4 else ():
        for size in (2, 3, 4, 8, 12, 16, 24):
            q = -(-(1 << span) // size)            # smallest n with n * size >= 2**span
            vals += [q, q + 1, q + orig]
    return [v for v in vals if 0 <= v < (1 << bits)]


def mutations(data, spans, endian, rng, max_prefix=512, flips=24, doubles=8, other=None, limits=None,
              all_prefixes=True):
    """Yield (family, description, bytes)."""
    n = len(data)
    yield 'empty', '', b''
    # every prefix
    if all_prefixes and n <= max_prefix:
        for i in range(1, n):
            yield 'prefix', str(i), data[:i]
    else:
        cuts = set(rng.sample(range(1, n), min(n - 1, 64))) if n > 1 else set()
        for o, w, k, p in spans:  # cuts at and inside every span boundary
            cuts.update(x for x in (o, o + 1, o + w - 1, o + w) if 0 < x < n)
        for i in sorted(cuts)[:160]:
            yield 'prefix', str(i), data[:i]
    # extensions
    for k in (1, 2, 3, 4, 5, 7, 8, 9):
        yield 'extend', str(k), data + bytes(bytearray(rng.randrange(256) for _ in range(k)))
    yield 'extend', 'zeros8', data + b'\x00' * 8
    # control words
    for o, w, k, p in spans:
        if k not in CONTROL:
            continue
        lim = (limits or {}).get(p)
        orig = _struct.unpack(endian + FMTU[w], data[o:o + w])[0]
        for v in control_values(lim, rng) + (wide_values(orig, w) if k in ('counter', 'sizer') else []):
            v &= (1 << (8 * w)) - 1
            b = bytearray(data)
            b[o:o + w] = _struct.pack(endian + FMTU[w], v)
            if bytes(b) != data:
                yield 'control:' + k, '%s=%d' % (p, v), bytes(b)
    # padding made non-zero (legal per the doc)
    pads = [(o, w) for o, w, k, p in spans if k == 'pad']
    if pads:
        b = bytearray(data)
        for o, w in pads:
            for i in range(o, o + w):
                b[i] = 0xa5
        yield 'padding-garbage', '', bytes(b)
    # bit flips
    nbits = 8 * n
    if nbits:
        single = range(nbits) if nbits <= flips * 4 else sorted(rng.sample(range(nbits), flips))
        for bit in single:
            b = bytearray(data)
            b[bit // 8] ^= 1 << (bit % 8)
            yield 'bitflip', str(bit), bytes(b)
        for _ in range(doubles):
            b = bytearray(data)
            for bit in (rng.randrange(nbits), rng.randrange(nbits)):
                b[bit // 8] ^= 1 << (bit % 8)
            yield 'bitflip2', '', bytes(b)
    # splice
    if other:
        cut = rng.randrange(0, n + 1)
        cut2 = rng.randrange(0, len(other) + 1)
        yield 'splice', '%d+%d' % (cut, cut2), data[:cut] + other[cut2:]
    # random
    for ln in (1, 3, 4, 8, 12, 16, n):
        yield 'random', str(ln), bytes(bytearray(rng.randrange(256) for _ in range(ln)))
    yield 'ones', '', b'\xff' * max(n, 8)
