"""C++ drivers and sanitizers (DESIGN 2.5).

Full-codec driver: line protocol on stdin, one case per line
    <id> <type-index> <endian 0=native 1=little 2=big> <op-bits> <alloc-budget-per-input-byte> <hex>
    (a line "K" makes the driver print "K <type-index> <sizeof(T)> <encoded_byte_size>" for every type)
op bits: 1 = over-fill limited arrays after decode, 2 = clear dynamic arrays/optionals after decode,
         4 = decode into a persistent (stale) object instead of a fresh one, 8 = skip the report
Output per case (stdout, flushed after BEGIN):
    BEGIN id / A max total refused / X bad_alloc n / D 0|1 / S size / Z encoded_byte_size / P n hex /
    L hex / B hex / N hex / T hex / END id
"""
import os
import re
import shutil
import subprocess

from . import REPO
from .schema import PLAIN, OPTIONAL, FIXED, DYNAMIC, LIMITED, GREEDY, EXT

CXX = 'clang++-14'
SAN_FLAGS = ['-fsanitize=address,undefined', '-fno-sanitize=enum', '-fno-sanitize-recover=all',
             '-fno-omit-frame-pointer']
BASE_FLAGS = ['-std=c++11', '-O0', '-gline-tables-only', '-w']
ASAN_ENV = {
    'ASAN_OPTIONS': 'detect_leaks=1:halt_on_error=1:abort_on_error=0:allocator_may_return_null=0:'
                    'symbolize=1:print_summary=1:detect_stack_use_after_return=0',
    'UBSAN_OPTIONS': 'print_stacktrace=1:halt_on_error=1',
    'ASAN_SYMBOLIZER_PATH': shutil.which('llvm-symbolizer-14') or shutil.which('llvm-symbolizer') or '',
}


class BuildFailed(Exception):
    def __init__(self, stage, log):
        Exception.__init__(self, "%s failed: %s" % (stage, log[-3000:]))
        self.stage = stage
        self.log = log


def prophyc_cpp(text, workdir, name='sch', full=True, raw=False, python=False, files=None, patch=None, fmt='prophy'):
    """Run prophyc for the C++ back-ends in-process. Returns (gen_dir, nodes)."""
    from . import pyrt
    src = os.path.join(workdir, name + ('.prophy' if fmt == 'prophy' else '.xml'))
    with open(src, 'w') as f:
        f.write(text)
    gen = os.path.join(workdir, 'gen_' + name)
    os.makedirs(gen)
    args = ['--quiet'] + (['--isar'] if fmt == 'isar' else [])
    if full:
        args += ['--cpp_full_out', gen]
    if raw:
        args += ['--cpp_out', gen]
    if python:
        args += ['--python_out', gen]
    if patch:
        pp = os.path.join(workdir, name + '.patch')
        with open(pp, 'w') as f:
            f.write(patch)
        args += ['--patch', pp]
    for fn, ftext in sorted((files or {}).items()):
        # further schema files next to the main one (it may #include them); all are inputs of the same run
        fp = os.path.join(workdir, fn)
        with open(fp, 'w') as f:
            f.write(ftext)
        args.append(fp)
    args.append(src)
    try:
        nodes = pyrt.run_prophyc(args)
    except BaseException as e:  # noqa
        if isinstance(e, KeyboardInterrupt):
            raise
        raise BuildFailed('prophyc', '%s: %s' % (type(e).__name__, e))
    return gen, nodes


def compile_cpp(sources, out, include_dirs, sanitize=True, cxx=CXX, extra=(), timeout=900, compile_only=False):
    base = BASE_FLAGS if cxx.startswith('clang') else [f for f in BASE_FLAGS if not f.startswith('-gline')]
    cmd = [cxx] + base + (SAN_FLAGS if sanitize else []) + list(extra)
    for d in include_dirs:
        cmd += ['-I', d]
    cmd += ['-I', os.path.join(REPO, 'prophy_cpp', 'include')]
    if compile_only:
        cmd += ['-c']
    cmd += list(sources) + ['-o', out]
    try:
        p = subprocess.run(cmd, stdout=subprocess.PIPE, stderr=subprocess.STDOUT, timeout=timeout,
                           env=dict(os.environ, LC_ALL='C'))
    except subprocess.TimeoutExpired:
        raise BuildFailed('compile-timeout', ' '.join(cmd))
    if p.returncode != 0:
        raise BuildFailed('compile', p.stdout.decode('utf-8', 'replace'))
    return out


# ---------------------------------------------------------------------------
# full-codec driver source
# ---------------------------------------------------------------------------

DRIVER_HEAD = r'''
#include <cstdio>
#include <cstdlib>
#include <cstring>
#include <new>
#include <vector>
#include <string>
#include <stdint.h>
#include "%(name)s.ppf.hpp"
using namespace prophy::generated;

static size_t g_budget = ~size_t(0), g_max = 0, g_total = 0, g_refused = 0, g_refused_size = 0;
static void g_reset() { g_max = g_total = g_refused = g_refused_size = 0; }
void* operator new(size_t n)
{
    if (n > g_max) g_max = n;
    g_total += n;
    if (n > g_budget) { ++g_refused; g_refused_size = n; throw std::bad_alloc(); }
    void* p = malloc(n ? n : 1);
    if (!p) throw std::bad_alloc();
    return p;
}
void* operator new[](size_t n) { return operator new(n); }
void operator delete(void* p) noexcept { free(p); }
void operator delete[](void* p) noexcept { free(p); }

static void put_hex(const char* tag, const uint8_t* p, size_t n)
{
    static const char* d = "0123456789abcdef";
    std::string s;
    s.reserve(2 * n);
    for (size_t i = 0; i < n; ++i) { s.push_back(d[p[i] >> 4]); s.push_back(d[p[i] & 15]); }
    printf("%%s %%s\n", tag, s.c_str());
}
static int hexval(char c) { return c <= '9' ? c - '0' : (c | 32) - 'a' + 10; }

template <class T> T& stale_obj() { static T x; return x; }
template <class T> void mutate_over(T&) { }
template <class T> void mutate_clear(T&) { }
'''

DRIVER_TAIL = r'''
template <class T>
void report_common(const T& x)
{
    { std::vector<uint8_t> v = x.template encode<prophy::little>(); put_hex("L", v.data(), v.size()); }
    { std::vector<uint8_t> v = x.template encode<prophy::big>(); put_hex("B", v.data(), v.size()); }
    { std::vector<uint8_t> v = x.encode(); put_hex("N", v.data(), v.size()); }
    fflush(stdout);
    { std::string t = x.print(); put_hex("T", reinterpret_cast<const uint8_t*>(t.data()), t.size()); }
}

template <class T, prophy::endianness E>
void report(const T& x)
{
    size_t sz = x.get_byte_size();
    printf("S %zu\n", sz);
    printf("Z %d\n", int(T::encoded_byte_size));
    fflush(stdout);
    {
        uint8_t* out = new uint8_t[sz];     // exact size: the first byte past the end is an ASan red zone
        memset(out, 0, sz);
        size_t w = x.template encode<E>(static_cast<void*>(out));
        printf("P %zu ", w);
        put_hex("", out, w < sz ? w : sz);
        delete[] out;
    }
    fflush(stdout);
    report_common(x);
}

static size_t g_factor = 64;

template <class T, prophy::endianness E>
void run(const std::vector<uint8_t>& in, int op)
{
    uint8_t* buf = new uint8_t[in.size()];  // exact size, 16-aligned by the allocator
    if (in.size()) memcpy(buf, in.data(), in.size());
    T fresh;
    T& x = (op & 4) ? stale_obj<T>() : fresh;
    bool ok = false;
    g_reset();
    g_budget = g_factor * in.size() + 4096;
    try
    {
        if (op & 16) ok = x.template decode<E>(in);     // the std::vector entry point
        else ok = x.template decode<E>(buf, in.size());
    }
    catch (std::bad_alloc&) { g_budget = ~size_t(0); printf("X bad_alloc %zu\n", g_refused_size); }
    g_budget = ~size_t(0);
    printf("A %zu %zu %zu\n", g_max, g_total, g_refused);
    printf("D %d\n", int(ok));
    fflush(stdout);
    delete[] buf;
    if (ok && !(op & 8))
    {
        if (op & 1) mutate_over(x);
        if (op & 2) mutate_clear(x);
        report<T, E>(x);
    }
}

template <class T>
void run_e(int e, const std::vector<uint8_t>& in, int op)
{
    if (e == 0) run<T, prophy::native>(in, op);
    else if (e == 1) run<T, prophy::little>(in, op);
    else run<T, prophy::big>(in, op);
}

int main()
{
    static char line[1 << 20];
    while (fgets(line, sizeof line, stdin))
    {
        char id[64]; int ti, e, op; int off = 0;
        if (line[0] == 'K') { sizes(); fflush(stdout); continue; }
        if (sscanf(line, "%63s %d %d %d %zu %n", id, &ti, &e, &op, &g_factor, &off) < 5) continue;
        std::vector<uint8_t> in;
        for (const char* p = line + off; p[0] && p[1] && p[0] != '\n' && p[0] != '-'; p += 2)
            in.push_back(uint8_t(hexval(p[0]) * 16 + hexval(p[1])));
        printf("BEGIN %s\n", id);
        fflush(stdout);
        dispatch(ti, e, in, op);
        printf("END %s\n", id);
        fflush(stdout);
    }
    return 0;
}
'''


def _mutators(schema, names):
    """mutate_over / mutate_clear specialisations for every struct."""
    out = []
    structs = [d for d in schema.defs if d.kind == 'struct']
    for d in structs:
        out.append('template <> void mutate_over<%s>(%s& x);' % (d.name, d.name))
        out.append('template <> void mutate_clear<%s>(%s& x);' % (d.name, d.name))
    for d in structs:
        over, clear = [], []
        for m in d.members:
            r = schema.resolve(m.type) if m.type != 'byte' else 'byte'
            is_struct = not isinstance(r, str) and r.kind == 'struct'
            if m.kind == LIMITED:
                over.append('x.%s.resize(%d);' % (m.name, m.size + 2))
                clear.append('x.%s.clear();' % m.name)
            elif m.kind in (DYNAMIC, EXT, GREEDY):
                clear.append('x.%s.clear();' % m.name)
                if is_struct:
                    over.append('for (size_t i = 0; i < x.%s.size(); ++i) mutate_over(x.%s[i]);' % (m.name, m.name))
            elif m.kind == OPTIONAL:
                clear.append('x.%s.reset();' % m.name)
                if is_struct:
                    over.append('if (x.%s) mutate_over(*x.%s);' % (m.name, m.name))
            elif m.kind == PLAIN and is_struct:
                over.append('mutate_over(x.%s);' % m.name)
                clear.append('mutate_clear(x.%s);' % m.name)
            elif m.kind == FIXED and is_struct:
                over.append('for (size_t i = 0; i < %d; ++i) mutate_over(x.%s[i]);' % (m.size, m.name))
        out.append('template <> void mutate_over<%s>(%s& x) { (void)x; %s }' % (d.name, d.name, ' '.join(over)))
        out.append('template <> void mutate_clear<%s>(%s& x) { (void)x; %s }' % (d.name, d.name, ' '.join(clear)))
    return '\n'.join(out)


def full_driver_source(schema, names, name='sch'):
    disp = ['static void dispatch(int ti, int e, const std::vector<uint8_t>& in, int op)', '{', '    switch (ti)', '    {']
    for i, n in enumerate(names):
        disp.append('        case %d: run_e<%s>(e, in, op); break;' % (i, n))
    disp += ['        default: printf("BADTYPE\\n");', '    }', '}']
    disp += ['static void sizes()', '{']
    for i, n in enumerate(names):
        disp.append('    printf("K %d %%zu %%d\\n", sizeof(%s), int(%s::encoded_byte_size));' % (i, n, n))
    for d in schema.composites():
        disp.append('    printf("Z %s %%zu\\n", sizeof(%s));' % (d.name, d.name))
    disp += ['}']
    fwd = ['template <class T> void run_e(int e, const std::vector<uint8_t>& in, int op);']
    return (DRIVER_HEAD % {'name': name} + _mutators(schema, names) + '\n' + '\n'.join(fwd) + '\n' +
            '\n'.join(disp) + '\n' + DRIVER_TAIL)


# ---------------------------------------------------------------------------
# running
# ---------------------------------------------------------------------------

SAN_RE = re.compile(r'(ERROR: AddressSanitizer: [^\n]*|ERROR: LeakSanitizer: [^\n]*|runtime error: [^\n]*|'
                    r'AddressSanitizer:DEADLYSIGNAL|SUMMARY: [^\n]*)')


def san_class(text):
    """Short class of a sanitizer report, e.g. 'heap-buffer-overflow READ' / 'ubsan: misaligned ...'."""
    m = re.search(r'ERROR: AddressSanitizer: ([\w-]+)', text)
    if m:
        kind = m.group(1)
        acc = re.search(r'\b(READ|WRITE) of size', text)
        return 'asan:' + kind + (':' + acc.group(1) if acc else '')
    m = re.search(r'runtime error: ([^\n]*)', text)
    if m:
        msg = re.sub(r'0x[0-9a-f]+', 'ADDR', m.group(1))
        msg = re.sub(r'\d+', 'N', msg)
        return 'ubsan:' + msg[:60].strip().replace(' ', '-')
    if 'LeakSanitizer' in text:
        return 'lsan:leak'
    if 'DEADLYSIGNAL' in text or 'SEGV' in text:
        return 'asan:SEGV'
    return None


def san_frames(text, limit=6):
    fr = []
    for m in re.finditer(r'#\d+ 0x[0-9a-f]+ in ([^\n]*)', text):
        f = m.group(1)
        if 'prophy' in f or 'message' in f or 'decode' in f or 'encode' in f:
            fr.append(re.sub(r'/tmp/[^ :]*/', '', f)[:160])
        if len(fr) >= limit:
            break
    return fr


def type_sizes(binary):
    """{type index: (sizeof(T), encoded_byte_size)} as compiled."""
    env = dict(os.environ)
    env.update(ASAN_ENV)
    p = subprocess.run([binary], input=b'K\n', stdout=subprocess.PIPE, stderr=subprocess.PIPE, env=env, timeout=60)
    out = {}
    for ln in p.stdout.decode('latin1').split('\n'):
        a = ln.split()
        if len(a) == 4 and a[0] == 'K':
            out[int(a[1])] = (int(a[2]), int(a[3]))
        elif len(a) == 3 and a[0] == 'Z':
            out[a[1]] = int(a[2])            # sizeof of every composite type of the schema, by name
    return out


MAX_CRASHES_PER_FILE = 40


def run_cases(binary, cases, timeout=300):
    """cases: list of (id, type_index, endian, op, bytes[, alloc budget per input byte]). Returns (results {id: dict}, process_reports list).
    A case dict has keys from the protocol plus 'crash' (sanitizer report text) when the process died in it."""
    results = {}
    reports = []
    env = dict(os.environ)
    env.update(ASAN_ENV)
    todo = list(cases)
    guard = 0
    crashes = 0
    while todo:
        guard += 1
        if guard > len(cases) + 5:
            break
        if crashes > MAX_CRASHES_PER_FILE:
            # every crash costs a restart of the instrumented binary: beyond this many the verdict is clear and the
            # remaining cases of this schema file are left unexecuted (the caller counts them)
            results['__crash_cap__'] = {'crashes': crashes, 'not_executed': len(todo)}
            break
        inp = ''.join('%s %d %d %d %d %s\n' % (c[0], c[1], c[2], c[3], c[5] if len(c) > 5 else 64,
                                                 c[4].hex() if c[4] else '-') for c in todo)
        try:
            p = subprocess.run([binary], input=inp.encode(), stdout=subprocess.PIPE, stderr=subprocess.PIPE,
                               env=env, timeout=timeout)
            out, err, rc = p.stdout.decode('latin1'), p.stderr.decode('latin1'), p.returncode
            timed_out = False
        except subprocess.TimeoutExpired as te:
            out = (te.stdout or b'').decode('latin1')
            err = (te.stderr or b'').decode('latin1')
            rc, timed_out = None, True
        cur = None
        done_ids = []
        for ln in out.split('\n'):
            if not ln:
                continue
            tag, _, rest = ln.partition(' ')
            if tag == 'BEGIN':
                cur = {'id': rest}
                results[rest] = cur
            elif cur is None:
                continue
            elif tag == 'END':
                cur['done'] = True
                done_ids.append(rest)
                cur = None
            elif tag == 'A':
                a = rest.split()
                cur['alloc_max'], cur['alloc_total'], cur['alloc_refused'] = int(a[0]), int(a[1]), int(a[2])
            elif tag == 'X':
                cur['bad_alloc'] = int(rest.split()[1])
            elif tag == 'D':
                cur['ok'] = rest.strip() == '1'
            elif tag == 'S':
                cur['size'] = int(rest)
            elif tag == 'Z':
                cur['ebs'] = int(rest)
            elif tag == 'P':
                a = rest.split()
                cur['ptr_written'] = int(a[0])
                cur['ptr_bytes'] = bytes.fromhex(a[1]) if len(a) > 1 else b''
            elif tag in ('L', 'B', 'N', 'T', 'O'):
                cur[tag] = bytes.fromhex(rest.strip())
            elif tag == 'R':
                cur['ret'] = int(rest)
            elif tag == 'G':
                cur['guard_changed'] = int(rest)
        if cur is not None:
            # process died (or hung) inside this case
            if timed_out:
                cur['timeout'] = True
            else:
                cur['crash'] = err if len(err) < 7000 else err[:5000] + '\n...\n' + err[-1500:]
                cur['rc'] = rc
                crashes += 1
            idx = [i for i, c in enumerate(todo) if c[0] == cur['id']]
            todo = todo[idx[0] + 1:] if idx else []
            continue
        if timed_out:
            reports.append({'timeout': True})
            break
        if rc != 0 or 'Sanitizer' in err:
            reports.append({'rc': rc, 'stderr': err if len(err) < 7000 else err[:5000] + '\n...\n' + err[-1500:]})
        if not done_ids and todo and rc != 0:
            # died before the first case
            break
        todo = []
    return results, reports


# ---------------------------------------------------------------------------
# raw codec drivers (C08, C09)
# ---------------------------------------------------------------------------

def raw_sizeof(schema, wire, tname, _memo=None):
    """sizeof of the raw C++ struct prophyc emits for tname. Fixed types: the wire size. Others: the blocks laid out one
    after the other (each partN is a member of the packed main struct, so it follows without padding), an array without a fixed
    extent declared with one element, a nested non-fixed struct with its own sizeof; rounded up to the alignment."""
    _memo = _memo if _memo is not None else {}
    if tname == 'byte':
        return 1
    r = schema.resolve(tname)
    if isinstance(r, str):
        return wire.tinfo(tname)[0]
    size, align, stiff = wire.tinfo(r.name)
    if size is not None and stiff == 0:
        return size
    if r.name in _memo:
        return _memo[r.name]
    L = wire.layout(r.name)
    end = 0
    for bi, block in enumerate(L.blocks):
        start = end        # the main struct is packed: a part member follows the previous block without padding
        bend = 0
        for f, off in zip(block, L.offsets[bi]):
            m = f.member
            if f.size is not None:
                bend = off + f.size
            elif f.role == 'member' and m.kind == PLAIN:
                bend = off + raw_sizeof(schema, wire, m.type, _memo)
            else:
                bend = off + raw_sizeof(schema, wire, m.type, _memo)      # [1] element
        if bi:
            bend = -(-bend // L.block_align[bi]) * L.block_align[bi]        # sizeof(partN)
        end = start + bend
    out = -(-end // align) * align
    _memo[r.name] = out
    return out


def raw_expected_layout(schema, wire, names):
    """Reference table: {('S', type): (size or None, align), ('M', container, member): offset}."""
    exp = {}
    for n in names:
        d = schema.by_name[n]
        size, align, stiff = wire.tinfo(n)
        exp[('S', n)] = (size, align)
        if size is None and d.kind == 'struct':
            exp[('R', n)] = (raw_sizeof(schema, wire, n), align)
        if d.kind == 'union':
            a = align
            exp[('M', n, 'discriminator')] = 0
            for disc, t, an, _ in d.arms:
                exp[('M', n, an)] = a
            continue
        L = wire.layout(n)
        for bi, block in enumerate(L.blocks):
            cont = n if bi == 0 else '%s::part%d' % (n, bi + 1)
            if bi:
                exp[('P', cont)] = (None, L.block_align[bi])     # prophy::cast aligns a part by its alignof
            for f, off in zip(block, L.offsets[bi]):
                m = f.member
                if f.role == 'counter':
                    exp[('M', cont, 'num_of_' + m.name)] = off
                elif f.role == 'sizer':
                    exp[('M', cont, m.name)] = off
                elif m.kind == OPTIONAL:
                    a = max(4, wire.tinfo(m.type)[1])
                    exp[('M', cont, 'has_' + m.name)] = off
                    exp[('M', cont, m.name)] = off + a
                else:
                    exp[('M', cont, m.name)] = off
    return exp


def raw_layout_driver_source(schema, wire, names, name='sch'):
    exp = raw_expected_layout(schema, wire, names)
    lines = ['#include <cstdio>', '#include <cstddef>', '#include "%s.pp.hpp"' % name, 'int main()', '{']
    for key in exp:
        if key[0] in ('S', 'P', 'R'):
            lines.append('    printf("%s %s %%zu %%zu\\n", sizeof(%s), (size_t)__alignof__(%s));' % (key[0], key[1], key[1], key[1]))
        else:
            lines.append('    printf("M %s %s %%zu\\n", (size_t)__builtin_offsetof(%s, %s));' % (key[1], key[2], key[1], key[2]))
    lines += ['    return 0;', '}']
    return '\n'.join(lines) + '\n', exp


def parse_layout_output(text):
    got = {}
    for ln in text.split('\n'):
        a = ln.split()
        if not a:
            continue
        if a[0] in ('S', 'P', 'R'):
            got[(a[0], a[1])] = (int(a[2]), int(a[3]))
        elif a[0] == 'M':
            got[('M', a[1], a[2])] = int(a[3])
    return got


SWAP_HEAD = r'''
#include <cstdio>
#include <cstdlib>
#include <cstring>
#include <string>
#include <vector>
#include <stdint.h>
#include "%(name)s.pp.hpp"

static void put_hex(const char* tag, const uint8_t* p, size_t n)
{
    static const char* d = "0123456789abcdef";
    std::string s;
    for (size_t i = 0; i < n; ++i) { s.push_back(d[p[i] >> 4]); s.push_back(d[p[i] & 15]); }
    printf("%%s %%s\n", tag, s.c_str());
}
static int hexval(char c) { return c <= '9' ? c - '0' : (c | 32) - 'a' + 10; }

template <class T>
void run(const std::vector<uint8_t>& in, int op)
{
    const size_t n = in.size();
    if (op == 0)
    {
        // exact-size heap block: any access outside the message is an AddressSanitizer report
        uint8_t* buf = new uint8_t[n];
        if (n) memcpy(buf, in.data(), n);
        T* end = prophy::swap(reinterpret_cast<T*>(buf));
        printf("R %%ld\n", long(reinterpret_cast<uint8_t*>(end) - buf));
        put_hex("O", buf, n);
        delete[] buf;
    }
    else
    {
        // arena with sentinels around the message: any changed byte outside it is reported
        const size_t guard = 64;
        uint8_t* arena = new uint8_t[n + 2 * guard];
        memset(arena, 0xA5, n + 2 * guard);
        uint8_t* buf = arena + guard;
        if (n) memcpy(buf, in.data(), n);
        T* end = prophy::swap(reinterpret_cast<T*>(buf));
        printf("R %%ld\n", long(reinterpret_cast<uint8_t*>(end) - buf));
        put_hex("O", buf, n);
        size_t changed = 0;
        for (size_t i = 0; i < guard; ++i) { changed += arena[i] != 0xA5; changed += buf[n + i] != 0xA5; }
        printf("G %%zu\n", changed);
        delete[] arena;
    }
}
'''

SWAP_TAIL = r'''
int main()
{
    static char line[1 << 20];
    while (fgets(line, sizeof line, stdin))
    {
        char id[64]; int ti, e, op; size_t f; int off = 0;
        if (sscanf(line, "%63s %d %d %d %zu %n", id, &ti, &e, &op, &f, &off) < 5) continue;
        std::vector<uint8_t> in;
        for (const char* p = line + off; p[0] && p[1] && p[0] != '\n' && p[0] != '-'; p += 2)
            in.push_back(uint8_t(hexval(p[0]) * 16 + hexval(p[1])));
        printf("BEGIN %s\n", id);
        fflush(stdout);
        dispatch(ti, in, op);
        printf("END %s\n", id);
        fflush(stdout);
    }
    return 0;
}
'''


def raw_swap_driver_source(names, name='sch'):
    disp = ['static void dispatch(int ti, const std::vector<uint8_t>& in, int op)', '{', '    switch (ti)', '    {']
    for i, n in enumerate(names):
        disp.append('        case %d: run<%s>(in, op); break;' % (i, n))
    disp += ['        default: printf("BADTYPE\\n");', '    }', '}']
    return SWAP_HEAD % {'name': name} + '\n'.join(disp) + '\n' + SWAP_TAIL
