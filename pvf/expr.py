"""Integer expression trees for C14: generation, evaluation (the oracle) and rendering."""

LEVEL = {'+': 1, '-': 1, '*': 2, '/': 2, '<<': 3, '>>': 3, 'neg': 4}
LIMIT = 1 << 40


class Invalid(Exception):
    pass


class Lit(object):
    level = 5

    def __init__(self, value, base):
        self.value, self.base = value, base

    def text(self):
        if self.base == 16:
            return '0x%X' % self.value
        if self.base == 8:
            return '0%o' % self.value
        return '%d' % self.value

    def has_octal(self):
        return self.base == 8


class Name(object):
    level = 5

    def __init__(self, name, value):
        self.name, self.value = name, value

    def text(self):
        return self.name

    def has_octal(self):
        return False


class Neg(object):
    level = 4

    def __init__(self, a):
        self.a = a

    def has_octal(self):
        return self.a.has_octal()


class Bin(object):
    def __init__(self, op, a, b):
        self.op, self.a, self.b = op, a, b
        self.level = LEVEL[op]

    def has_octal(self):
        return self.a.has_octal() or self.b.has_octal()


def evaluate(n, limit=None):
    """Integer the expression denotes (integer arithmetic; '/' floors, defined for a >= 0, b > 0)."""
    limit = limit or LIMIT
    if isinstance(n, (Lit, Name)):
        return n.value
    if isinstance(n, Neg):
        return -evaluate(n.a, limit)
    a, b = evaluate(n.a, limit), evaluate(n.b, limit)
    if n.op == '+':
        r = a + b
    elif n.op == '-':
        r = a - b
    elif n.op == '*':
        r = a * b
    elif n.op == '/':
        if a < 0 or b <= 0:
            raise Invalid('division domain')
        r = a // b
    elif n.op == '<<':
        if b < 0 or b > 24 or a < 0:
            raise Invalid('shift domain')
        r = a << b
    else:
        if b < 0 or b > 24 or a < 0:
            raise Invalid('shift domain')
        r = a >> b
    if abs(r) >= limit:
        raise Invalid('magnitude')
    return r


def render(n, rng, redundant=0.0):
    """Text with the parentheses the precedence table requires, plus random redundant ones."""
    if isinstance(n, (Lit, Name)):
        t = n.text()
    elif isinstance(n, Neg):
        inner = render(n.a, rng, redundant)
        if n.a.level < 4 or isinstance(n.a, Neg):
            inner = '(' + inner + ')'
        t = '-' + inner
    else:
        L = n.level
        a = render(n.a, rng, redundant)
        b = render(n.b, rng, redundant)
        if n.a.level < L:
            a = '(' + a + ')'
        if n.b.level <= L:
            b = '(' + b + ')'
        sp = rng.choice(['', ' '])
        t = a + sp + n.op + sp + b
        if n.op == '-' and b.startswith('-'):
            t = a + ' - ' + b
    if redundant and rng.random() < redundant:
        t = '(' + t + ')'
    return t


def python_precedence_value(n, text=None):
    """Value Python/C++ would compute from the *minimal* rendering of n re-parsed with their precedence
    (shifts bind looser than + - * /). Used only to attribute the isar known finding."""
    import random
    txt = text if text is not None else render(n, random.Random(0), 0.0)
    env = {}

    def collect(x):
        if isinstance(x, Name):
            env[x.name] = x.value
        elif isinstance(x, Neg):
            collect(x.a)
        elif isinstance(x, Bin):
            collect(x.a)
            collect(x.b)
    collect(n)
    import re
    txt = re.sub(r'\b0([0-7]+)\b', r'0o\1', txt).replace('/', '//')
    try:
        return eval(txt, {'__builtins__': {}}, env)  # noqa - our own generated arithmetic text
    except Exception:  # noqa
        return None


def gen(rng, depth, names, allow_octal=True, allow_neg=True):
    """Random tree; names: list of (name, value) usable as atoms."""
    if depth <= 0 or rng.random() < 0.25:
        r = rng.random()
        if names and r < 0.3:
            nm, v = rng.choice(names)
            return Name(nm, v)
        v = rng.choice([0, 1, 2, 3, 4, 5, 7, 8, 9, 10, 15, 16, 31, 63, 64, 100, 255, 256, 1000, 4095, 65535])
        base = rng.choice([10, 10, 10, 16, 8] if allow_octal else [10, 10, 16])
        if base == 8 and v < 8:
            base = 10      # 0[0-7]+ needs two digits to be read as octal; single digits are decimal anyway
        return Lit(v, base)
    r = rng.random()
    if allow_neg and r < 0.12:
        return Neg(gen(rng, depth - 1, names, allow_octal, allow_neg))
    op = rng.choice(['+', '-', '*', '/', '<<', '>>', '+', '*'])
    return Bin(op, gen(rng, depth - 1, names, allow_octal, allow_neg), gen(rng, depth - 1, names, allow_octal, allow_neg))


def gen_valid(rng, depth, names, lo=None, hi=None, allow_octal=True, allow_neg=True, tries=200):
    """Tree whose value is defined and, if lo/hi given, adjusted into [lo, hi] by a final + or - literal."""
    for _ in range(tries):
        t = gen(rng, depth, names, allow_octal, allow_neg)
        try:
            v = evaluate(t)
        except Invalid:
            continue
        if lo is not None and not lo <= v <= hi:
            target = rng.randint(lo, min(hi, lo + 40))
            d = target - v
            if abs(d) >= LIMIT:
                continue
            t = Bin('+', t, Lit(d, 10)) if d >= 0 else Bin('-', t, Lit(-d, 10))
            try:
                v = evaluate(t)
            except Invalid:
                continue
        return t, v
    t = Lit(lo if lo is not None else 1, 10)
    return t, t.value


def max_intermediate(n):
    """Largest absolute value of any sub-expression (for host languages with fixed-width integers)."""
    if isinstance(n, (Lit, Name)):
        return abs(n.value)
    if isinstance(n, Neg):
        return max_intermediate(n.a)
    return max(abs(evaluate(n)), max_intermediate(n.a), max_intermediate(n.b))


def host_value_32bit(n, text=None):
    """Value a host language with C-like precedence and 32-bit int arithmetic computes from the minimal rendering,
    or None when that evaluation leaves the range where C++ constant expressions are defined (shift count >= 31,
    intermediate >= 2**31, negative operand of a shift)."""
    import ast
    import random
    import re
    env = {}

    def collect(x):
        if isinstance(x, Name):
            env[x.name] = x.value
        elif isinstance(x, Neg):
            collect(x.a)
        elif isinstance(x, Bin):
            collect(x.a)
            collect(x.b)
    collect(n)
    # text: the rendering actually written into the schema (redundant parentheses are not redundant for a host
    # language with another precedence); default: the minimal rendering
    txt = text if text is not None else render(n, random.Random(0), 0.0)
    txt = re.sub(r'\b0([0-7]+)\b', r'0o\1', txt).replace('/', '//')

    def ev(a):
        if isinstance(a, ast.Expression):
            return ev(a.body)
        if isinstance(a, ast.Constant):
            v = a.value
        elif isinstance(a, ast.Name):
            v = env[a.id]
        elif isinstance(a, ast.UnaryOp):
            x = ev(a.operand)
            v = None if x is None else -x
        elif isinstance(a, ast.BinOp):
            x, y = ev(a.left), ev(a.right)
            if x is None or y is None:
                return None
            if isinstance(a.op, ast.Add):
                v = x + y
            elif isinstance(a.op, ast.Sub):
                v = x - y
            elif isinstance(a.op, ast.Mult):
                v = x * y
            elif isinstance(a.op, ast.FloorDiv):
                if x < 0 or y <= 0:
                    return None
                v = x // y
            elif isinstance(a.op, (ast.LShift, ast.RShift)):
                if x < 0 or y < 0 or y >= 31:
                    return None
                v = x << y if isinstance(a.op, ast.LShift) else x >> y
            else:
                return None
        else:
            return None
        if v is None or abs(v) >= (1 << 31):
            return None
        return v
    try:
        return ev(ast.parse(txt, mode='eval'))
    except Exception:  # noqa
        return None


BIG = [(1 << 53) + 1, (1 << 63) - 1, (1 << 64) - 1, 9007199254740993, 0x1000000000000000, 0x7FFFFFFFFFFFFFFF,
       12345678901234567891, (1 << 62) + 3, 999999999999999999]


def gen_big(rng, names, tries=200):
    """Expression over 64-bit-scale literals and / * + - whose value fits a signed 64-bit integer.
    Floating-point shortcuts (int(a / b)) round these; integer arithmetic does not."""
    def leaf():
        r = rng.random()
        if names and r < 0.2:
            nm, v = rng.choice(names)
            return Name(nm, v)
        if r < 0.7:
            return Lit(rng.choice(BIG), rng.choice([10, 16]))
        return Lit(rng.choice([1, 2, 3, 7, 10, 16, 1000, 65535, 0x10000000]), rng.choice([10, 16]))

    def tree(d):
        if d == 0 or rng.random() < 0.3:
            return leaf()
        return Bin(rng.choice(['/', '/', '*', '+', '-']), tree(d - 1), tree(d - 1))
    for _ in range(tries):
        t = Bin('/', tree(2), tree(1)) if rng.random() < 0.7 else tree(3)
        try:
            v = evaluate(t, 1 << 70)
        except Invalid:
            continue
        if 0 <= v < (1 << 63):
            return t, v
    t = Lit((1 << 53) + 1, 10)
    return t, t.value
