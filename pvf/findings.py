"""Known findings (DESIGN 6): /verif/known_findings.json, keyed by mechanism, never written at run time."""
import json
import os

from . import VERIF

_cache = None


def load():
    global _cache
    if _cache is None:
        p = os.path.join(VERIF, 'known_findings.json')
        if os.path.exists(p):
            with open(p) as f:
                _cache = json.load(f)
        else:
            _cache = {'findings': []}
    return _cache


def active(prop):
    return {e['mechanism']: e for e in load()['findings'] if e['property'] == prop and e.get('status') == 'known'}


def is_known(prop, mechanism):
    return mechanism in active(prop)


def describe(prop, mechanism):
    e = active(prop).get(mechanism)
    return e['what'] if e else mechanism
