"""Orchestration, verdicts, evidence and replay files (DESIGN 1, 2.8)."""
import argparse
import hashlib
import importlib
import json
import os
import shutil
import subprocess
import sys
import tempfile
import time

from . import REPO, VERIF, PYTHON
from . import findings as F

MAX_VIOLATIONS_KEPT = 60
MAX_SAMPLES = 6


class Ctx(object):
    def __init__(self, pid, tier, seed, workers):
        self.id = pid
        self.tier = tier
        self.seed = seed
        self.workers = workers
        self.repo = REPO
        self.quick = tier == 'quick'

    def pick(self, quick, thorough):
        return quick if self.quick else thorough


def new_partial():
    return {'evaluations': 0, 'sigs': [], 'samples': [], 'counters': {}, 'maxima': {}, 'violations': [],
            'known': {}, 'prereq': [], 'inconclusive': None, 'features': []}


class Acc(object):
    """Accumulator used inside a shard."""

    def __init__(self):
        self.p = new_partial()
        self._sigs = set()
        self._feat = set()
        self._per_mech = {}

    def ev(self, n=1):
        self.p['evaluations'] += n

    def sig(self, s):
        self._sigs.add(s if isinstance(s, str) else repr(s))

    def feature(self, s):
        self._feat.add(s)

    def count(self, k, n=1):
        self.p['counters'][k] = self.p['counters'].get(k, 0) + n

    def maxi(self, k, v):
        if v > self.p['maxima'].get(k, float('-inf')):
            self.p['maxima'][k] = v

    def sample(self, s):
        if len(self.p['samples']) < MAX_SAMPLES:
            self.p['samples'].append(s)

    def violation(self, prop, mechanism, witness):
        """Classify a deviation: known finding (listed mechanism) or violation."""
        witness = dict(witness)
        witness['mechanism'] = mechanism
        if F.is_known(prop, mechanism):
            self.p['known'][mechanism] = self.p['known'].get(mechanism, 0) + 1
            return False
        self._per_mech[mechanism] = self._per_mech.get(mechanism, 0) + 1
        if self._per_mech[mechanism] <= 3 and len(self.p['violations']) < MAX_VIOLATIONS_KEPT:
            self.p['violations'].append(witness)
        self.count('violations_total')
        self.count('violation:' + mechanism)
        return True

    def prereq(self, what):
        if len(self.p['prereq']) < 20:
            self.p['prereq'].append(what)
        self.count('prerequisite_failures')

    def done(self):
        self.p['sigs'] = [hashlib.md5(s.encode()).hexdigest()[:12] for s in self._sigs]
        self.p['features'] = sorted(self._feat)
        return self.p


def merge(parts):
    m = new_partial()
    sigs = set()
    feats = set()
    per = {}
    for p in parts:
        m['evaluations'] += p['evaluations']
        sigs.update(p['sigs'])
        feats.update(p.get('features', []))
        for s in p['samples']:
            if len(m['samples']) < MAX_SAMPLES:
                m['samples'].append(s)
        for k, v in p['counters'].items():
            m['counters'][k] = m['counters'].get(k, 0) + v
        for k, v in p['maxima'].items():
            if v > m['maxima'].get(k, float('-inf')):
                m['maxima'][k] = v
        for v in p['violations']:
            k = v.get('mechanism')
            per[k] = per.get(k, 0) + 1
            if per[k] <= 3 and len(m['violations']) < MAX_VIOLATIONS_KEPT:
                m['violations'].append(v)
        for k, v in p['known'].items():
            m['known'][k] = m['known'].get(k, 0) + v
        m['prereq'].extend(p['prereq'][:5])
        if p.get('inconclusive') and not m['inconclusive']:
            m['inconclusive'] = p['inconclusive']
    m['distinct'] = len(sigs)
    m['sigs'] = sorted(sigs)          # keeps a merged partial mergeable again (shard bisection)
    m['features'] = sorted(feats)
    return m


DURATIONS = []


def run_shards(check_id, specs, workers, timeout):
    """Run shard specs in worker subprocesses; returns (partials, failures)."""
    tmp = tempfile.mkdtemp(prefix='pvf_%s_' % check_id)
    env = dict(os.environ)
    env['PYTHONPATH'] = REPO + os.pathsep + VERIF
    env['PYTHONHASHSEED'] = '0'
    env['PYTHONDONTWRITEBYTECODE'] = '1'
    env['PVF_REPO'] = REPO
    procs = {}
    pending = list(enumerate(specs))
    results = {}
    failures = []
    try:
        while pending or procs:
            while pending and len(procs) < workers:
                i, spec = pending.pop(0)
                d = os.path.join(tmp, 'sh%d' % i)
                os.makedirs(d)
                with open(os.path.join(d, 'spec.json'), 'w') as f:
                    json.dump(spec, f)
                log = open(os.path.join(d, 'log.txt'), 'w')
                p = subprocess.Popen([PYTHON, '-m', 'pvf.shard', check_id, os.path.join(d, 'spec.json'),
                                      os.path.join(d, 'out.json')], cwd=d, env=env, stdout=log, stderr=subprocess.STDOUT)
                procs[i] = (p, time.time(), d, log)
            for i in list(procs):
                p, t0, d, log = procs[i]
                rc = p.poll()
                if rc is None:
                    if time.time() - t0 > timeout:
                        p.kill()
                        p.wait()
                        log.close()
                        failures.append("shard %d: wall-clock watchdog (%ds) fired" % (i, timeout))
                        del procs[i]
                    continue
                log.close()
                del procs[i]
                DURATIONS.append((round(time.time() - t0, 1), i))
                out = os.path.join(d, 'out.json')
                if rc == 0 and os.path.exists(out):
                    with open(out) as f:
                        results[i] = json.load(f)
                else:
                    tail = ''
                    try:
                        with open(os.path.join(d, 'log.txt')) as f:
                            tail = f.read()[-1500:]
                    except Exception:
                        pass
                    failures.append("shard %d: worker exit %s: %s" % (i, rc, tail))
                shutil.rmtree(d, ignore_errors=True)
            time.sleep(0.02)
    finally:
        for i in list(procs):
            procs[i][0].kill()
        shutil.rmtree(tmp, ignore_errors=True)
    return [results[i] for i in sorted(results)], failures


def replay_root():
    return os.environ.get('PVF_REPLAY_DIR') or os.path.join(VERIF, 'replays')


def write_replay(pid, witness):
    d = os.path.join(replay_root(), pid)
    if not os.path.isdir(d):
        os.makedirs(d)
    blob = json.dumps(witness, sort_keys=True, default=repr, indent=1)
    h = hashlib.md5(blob.encode()).hexdigest()[:12]
    path = os.path.join(d, h + '.json')
    with open(path, 'w') as f:
        f.write(blob)
    return path


def write_evidence(ctx, merged, mod, wall, verdict, nviol):
    cov = {
        'evaluations': merged['evaluations'],
        'distinct_nontrivial': merged.get('distinct', 0),
        'rule': getattr(mod, 'RULE', ''),
        'samples': merged['samples'] or [],
        'counters': merged['counters'],
        'maxima': merged['maxima'],
        'features_observed': merged.get('features', []),
        'known_findings_hit': merged['known'],
        'prerequisite_failures': merged['prereq'][:10],
        'verdict': verdict,
        'exhaustive': bool(merged.get('exhaustive', False)),
    }
    if merged.get('exhaustive_note'):
        cov['exhaustive_note'] = merged['exhaustive_note']
    ev = {
        'property_id': ctx.id,
        'tier': ctx.tier,
        'seed': ctx.seed,
        'level': 'exploration',
        'coverage': cov,
        'assumptions': getattr(mod, 'ASSUMPTIONS', []),
        'wall_s': round(wall, 2),
        'violations': nviol,
    }
    d = os.environ.get('PVF_EVIDENCE_DIR') or os.path.join(VERIF, 'evidence')
    if not os.path.isdir(d):
        os.makedirs(d)
    with open(os.path.join(d, ctx.id + '.json'), 'w') as f:
        json.dump(ev, f, indent=1, sort_keys=True, default=repr)


def self_check():
    from . import wire
    n, bad = wire.self_check()
    return n, bad


def selftest():
    """setup_cmd: nothing to build ahead of time; check the harness and the toolchain it relies on."""
    n, bad = self_check()
    print("reference wire model vs docs/encoding.rst worked examples: %d vectors, %d failures" % (n, len(bad)))
    for b in bad[:5]:
        print("  ", b)
    ok = not bad
    for tool in ('clang++-14', 'g++'):
        path = shutil.which(tool)
        print("%s: %s" % (tool, path))
        ok = ok and bool(path)
    try:
        import ply  # noqa
        import prophyc  # noqa
        print("prophyc importable from", os.path.dirname(prophyc.__file__))
    except Exception as e:  # noqa
        print("prophyc not importable:", e)
        ok = False
    return 0 if ok else 1


def main(argv=None):
    ap = argparse.ArgumentParser(prog='check')
    ap.add_argument('id')
    ap.add_argument('--tier', default=os.environ.get('VERIF_TIER', 'quick'), choices=['quick', 'thorough'])
    ap.add_argument('--seed', type=int, default=int(os.environ.get('VERIF_SEED', '0') or 0))
    ap.add_argument('--workers', type=int, default=int(os.environ.get('PVF_WORKERS', '0')))
    ap.add_argument('--replay', default=None)
    a = ap.parse_args(argv)
    if a.id == 'selftest':
        return selftest()
    pid = a.id.upper()
    mod = importlib.import_module('pvf.checks.' + pid.lower())
    ctx = Ctx(pid, a.tier, a.seed, a.workers or getattr(mod, 'WORKERS', 16))
    t0 = time.time()

    n, bad = self_check()
    if bad:
        print("INCONCLUSIVE property=%s reason=harness self-check failed: %r" % (pid, bad[:2]))
        return 2

    if a.replay:
        with open(a.replay) as f:
            witness = json.load(f)
        specs = [mod.replay_spec(ctx, witness)]
    else:
        shutil.rmtree(os.path.join(replay_root(), pid), ignore_errors=True)
        specs = mod.shards(ctx)
    timeout = getattr(mod, 'TIMEOUT', {'quick': 900, 'thorough': 7200})[ctx.tier]
    parts, failures = run_shards(pid, specs, ctx.workers, timeout)
    merged = merge(parts)
    if hasattr(mod, 'finish'):
        mod.finish(ctx, merged, specs)
    wall = time.time() - t0

    inconclusive = merged['inconclusive']
    npre = merged['counters'].get('prerequisite_failures', 0)
    if npre and not inconclusive:
        # generated code for a valid schema did not build/import: the monitors behind it observed nothing
        inconclusive = "%d prerequisite failures (part of the workload was never observed); first: %s" % (
            npre, json.dumps(merged['prereq'][:1], default=repr)[:600])
    if failures:
        inconclusive = inconclusive or "; ".join(failures)[:2000]
    nviol = merged['counters'].get('violations_total', 0)
    if nviol:
        verdict = 'violated'
    elif inconclusive:
        verdict = 'inconclusive'
    else:
        verdict = 'held'
    if not a.replay:
        write_evidence(ctx, merged, mod, wall, verdict, nviol)

    for mech, cnt in sorted(merged['known'].items()):
        print("KNOWN-FINDING: property=%s %s (mechanism=%s, %d observations)" % (pid, F.describe(pid, mech), mech, cnt))
    print("%s %s tier=%s seed=%d evaluations=%d distinct=%d wall=%.1fs counters=%s" % (
        pid, verdict, ctx.tier, ctx.seed, merged['evaluations'], merged.get('distinct', 0), wall,
        json.dumps(merged['counters'], sort_keys=True)))
    if os.environ.get('PVF_DEBUG'):
        print("shard durations (s, index), slowest first:", sorted(DURATIONS, reverse=True)[:8], "of", len(DURATIONS))
    if nviol:
        seen = {}
        for w in merged['violations']:
            key = w.get('mechanism')
            seen[key] = seen.get(key, 0) + 1
            if seen[key] > 2 or len(seen) > 12:
                continue
            path = write_replay(pid, w)
            print("VIOLATION property=%s replay=%s mechanism=%s" % (pid, path, key))
        return 1
    if inconclusive:
        print("INCONCLUSIVE property=%s reason=%s" % (pid, inconclusive))
        return 2
    return 0
