"""prophyc runner (DESIGN 2.6): in-process with a sys.monitoring LINE-event budget and outcome
classification; subprocess CLI runner; 'open' audit hook."""
import os
import signal
import subprocess
import sys

from . import REPO, PYTHON
from .pyrt import quiet

TOOL = 4
# CPU seconds (user time of this process, load-independent) one prophyc.main call may burn before it is a hang;
# valid compiles of the generated inputs take well under a second
CPU_BUDGET = int(os.environ.get('PVF_CPU_BUDGET', '40'))


class StepBudgetExceeded(BaseException):
    def __init__(self, where, steps):
        BaseException.__init__(self, "step budget exceeded after %d line events at %s" % (steps, where))
        self.where = where
        self.steps = steps


class Stepper(object):
    """Counts LINE events of code under the repository (prophyc/, prophy/) and ply; aborts beyond a budget."""

    def __init__(self):
        self.count = 0
        self.budget = 1 << 62
        self.last = None
        mon = sys.monitoring
        try:
            mon.use_tool_id(TOOL, 'pvf-pc')
        except ValueError:
            pass
        mon.register_callback(TOOL, mon.events.LINE, self._line)

    def _line(self, code, line):
        self.count += 1
        if self.count > self.budget:
            self.budget = 1 << 62
            raise StepBudgetExceeded('%s:%d (%s)' % (os.path.relpath(code.co_filename, REPO)
                                                     if code.co_filename.startswith(REPO) else code.co_filename,
                                                     line, code.co_name), self.count)

    def _cpu(self, signum, frame):
        """ITIMER_VIRTUAL fired: CPU_BUDGET seconds of *CPU time* of this process were spent in one call without the
        LINE budget being reached - a loop below the Python level (e.g. a backtracking regular expression)."""
        f, where = frame, None
        while f is not None:
            fn = f.f_code.co_filename
            if where is None or fn.startswith(REPO):
                where = '%s:%d (%s)' % (os.path.relpath(fn, REPO) if fn.startswith(REPO) else fn, f.f_lineno,
                                        f.f_code.co_name)
                if fn.startswith(REPO):
                    break
            f = f.f_back
        self.budget = 1 << 62
        raise StepBudgetExceeded('cpu %ds %s' % (CPU_BUDGET, where), self.count)

    def run(self, fn, budget):
        mon = sys.monitoring
        self.count = 0
        self.budget = budget
        armed = False
        try:
            old = signal.signal(signal.SIGVTALRM, self._cpu)
            signal.setitimer(signal.ITIMER_VIRTUAL, CPU_BUDGET)
            armed = True
        except ValueError:      # not the main thread: only the LINE budget applies
            pass
        mon.set_events(TOOL, mon.events.LINE)
        try:
            return fn()
        finally:
            mon.set_events(TOOL, 0)
            if armed:
                signal.setitimer(signal.ITIMER_VIRTUAL, 0)
                signal.signal(signal.SIGVTALRM, old)
            self.budget = 1 << 62

    def close(self):
        sys.monitoring.set_events(TOOL, 0)
        sys.monitoring.free_tool_id(TOOL)


INTERNAL = (ValueError, KeyError, AttributeError, TypeError, IndexError, AssertionError, RecursionError,
            ZeroDivisionError, NameError, LookupError, ArithmeticError, NotImplementedError, StopIteration,
            MemoryError, UnicodeError)


def classify(exc):
    """ok / designed / project / library / internal for the answer of prophyc.main()."""
    if exc is None:
        return 'ok'
    import prophyc
    if isinstance(exc, (prophyc.ProphycError, SystemExit)):
        return 'designed'
    if isinstance(exc, StepBudgetExceeded):
        return 'hang'
    mod = type(exc).__module__ or ''
    if mod.startswith('prophyc'):
        return 'project'
    if type(exc) is Exception:
        return 'project'           # prophyc/patch.py raises bare Exception with a composed message
    if mod.startswith('xml.') or isinstance(exc, OSError):
        return 'library'
    if isinstance(exc, INTERNAL):
        return 'internal'
    if mod == 'builtins':
        return 'internal'
    return 'library'


def run_main(args, stepper=None, budget=None):
    """prophyc.main(args) in-process. Returns (exception or None, steps, result)."""
    import prophyc
    res = [None]

    def call():
        with quiet():
            res[0] = prophyc.main(list(args))
    exc = None
    try:
        if stepper is not None:
            stepper.run(call, budget)
        else:
            call()
    except BaseException as e:  # noqa
        if isinstance(e, KeyboardInterrupt):
            raise
        exc = e
    return exc, (stepper.count if stepper else 0), res[0]


def run_cli(args, cwd=None, hashseed='0', timeout=120, extra_env=None):
    env = dict(os.environ)
    env['PYTHONPATH'] = REPO
    env['PYTHONHASHSEED'] = str(hashseed)
    env['PYTHONDONTWRITEBYTECODE'] = '1'
    if extra_env:
        env.update(extra_env)
    try:
        p = subprocess.run([PYTHON, '-m', 'prophyc'] + list(args), cwd=cwd, env=env, stdout=subprocess.PIPE,
                           stderr=subprocess.PIPE, timeout=timeout)
        return p.returncode, p.stdout.decode('utf-8', 'replace'), p.stderr.decode('utf-8', 'replace')
    except subprocess.TimeoutExpired:
        return None, '', 'TIMEOUT'


class OpenAudit(object):
    """Counts open() events per path (sys.addaudithook cannot be removed: it is switched by a flag)."""
    _installed = None

    def __init__(self):
        self.active = False
        self.opens = {}
        if OpenAudit._installed is None:
            OpenAudit._installed = self
            sys.addaudithook(OpenAudit._hook)

    @staticmethod
    def _hook(event, args):
        self = OpenAudit._installed
        if self is not None and self.active and event == 'open' and isinstance(args[0], str):
            mode = args[1] if len(args) > 1 else 'r'
            if mode is None or 'r' in str(mode) or mode == '':
                p = os.path.abspath(args[0])
                self.opens[p] = self.opens.get(p, 0) + 1

    def start(self):
        self.opens = {}
        self.active = True

    def stop(self):
        self.active = False
        return dict(self.opens)
