"""Python runtime adapter (DESIGN 2.4): prophyc --python_out, import, build/read via public API only."""
import importlib
import io
import os
import sys
import contextlib
import itertools

from .schema import INTS, FLOATS, PLAIN, OPTIONAL, FIXED, DYNAMIC, LIMITED, GREEDY, EXT

_counter = itertools.count()


class CompileFailed(Exception):
    def __init__(self, stage, exc):
        Exception.__init__(self, "%s: %s: %s" % (stage, type(exc).__name__, exc))
        self.stage = stage
        self.exc = exc


@contextlib.contextmanager
def quiet():
    old_out, old_err = sys.stdout, sys.stderr
    sys.stdout, sys.stderr = io.StringIO(), io.StringIO()
    try:
        yield
    finally:
        sys.stdout, sys.stderr = old_out, old_err


def run_prophyc(args):
    """prophyc.main(args) in-process; returns model nodes dict."""
    import prophyc
    with quiet():
        return prophyc.main(list(args))


def compile_python(text, workdir, name='sch', extra_args=(), files=None, fmt='prophy', patch=None, files_are_inputs=False):
    """Write schema text, run prophyc --python_out into a fresh package, import it.
    files: optional {relative path: text} of additional schema files (includes).
    Returns (module, model_nodes)."""
    idx = next(_counter)
    srcdir = os.path.join(workdir, "src%d" % idx)
    pkg = "pvfgen%d_%d" % (os.getpid(), idx)
    pkgdir = os.path.join(workdir, pkg)
    os.makedirs(srcdir)
    os.makedirs(pkgdir)
    ext = '.prophy' if fmt == 'prophy' else '.xml'
    main = os.path.join(srcdir, name + ext)
    with open(main, 'w') as f:
        f.write(text)
    inputs = [main]
    for rel, t in (files or {}).items():
        p = os.path.join(srcdir, rel)
        if not os.path.isdir(os.path.dirname(p)):
            os.makedirs(os.path.dirname(p))
        with open(p, 'w') as f:
            f.write(t)
        if files_are_inputs:
            inputs.insert(0, p)
    with open(os.path.join(pkgdir, '__init__.py'), 'w') as f:
        f.write('')
    args = ['--quiet', '--python_out', pkgdir] + list(extra_args)
    if fmt == 'isar':
        args.insert(0, '--isar')
    if patch is not None:
        pp = os.path.join(srcdir, name + '.patch')
        with open(pp, 'w') as f:
            f.write(patch)
        args += ['--patch', pp]
    args += inputs
    try:
        nodes = run_prophyc(args)
    except BaseException as e:  # noqa - SystemExit etc are outcomes too
        if isinstance(e, KeyboardInterrupt):
            raise
        raise CompileFailed('prophyc', e)
    if workdir not in sys.path:
        sys.path.insert(0, workdir)
    importlib.invalidate_caches()
    try:
        with quiet():
            mod = importlib.import_module(pkg + '.' + name)
    except BaseException as e:  # noqa
        if isinstance(e, KeyboardInterrupt):
            raise
        raise CompileFailed('import', e)
    return mod, nodes


def is_composite(schema, tname):
    r = schema.resolve(tname)
    return not isinstance(r, str) and r.kind in ('struct', 'union')


def sizer_names(st):
    return set(m.sizer for m in st.members if m.kind == EXT)


def _has_unsized_bytes(schema, tname, _seen=None):
    _seen = _seen if _seen is not None else set()
    r = schema.resolve(tname)
    if isinstance(r, str) or r.kind == 'enum' or r.name in _seen:
        return False
    _seen.add(r.name)
    if r.kind == 'union':
        return any(_has_unsized_bytes(schema, a[1], _seen) for a in r.arms)
    return any((m.type == 'byte' and m.kind != FIXED) or (m.type != 'byte' and _has_unsized_bytes(schema, m.type, _seen))
               for m in r.members)


def _is_default(schema, tname, v):
    """Default-valued and safe to leave untouched (an unsized bytes field must always be assigned: its
    never-assigned default is the str '' - recorded finding of C01/C10)."""
    from . import apimodel
    return _same(v, apimodel.default_of(schema, tname)) and not _has_unsized_bytes(schema, tname)


def _same(a, b):
    """Equality that tells -0.0 from 0.0 (their encodings differ)."""
    if isinstance(a, float) or isinstance(b, float):
        return a == b and repr(float(a)) == repr(float(b))
    if isinstance(a, dict) and isinstance(b, dict):
        return a.keys() == b.keys() and all(_same(a[k], b[k]) for k in a)
    if isinstance(a, (list, tuple)) and isinstance(b, (list, tuple)):
        return len(a) == len(b) and all(_same(x, y) for x, y in zip(a, b))
    return a == b


def build(msg, schema, tname, value, sparse=False):
    """Set a live message to the reference value using the documented public API only.
    sparse=True performs the fewest operations: values equal to the default are never assigned or even read
    (a union arm is selected through the discriminator only, nested composites holding defaults are not touched)."""
    r = schema.resolve(tname)
    if r.kind == 'union':
        arm_name, v = value
        arm = [a for a in r.arms if a[2] == arm_name][0]
        msg.discriminator = arm_name
        if sparse and _is_default(schema, arm[1], v):
            return
        if is_composite(schema, arm[1]):
            build(getattr(msg, arm_name), schema, arm[1], v, sparse)
        else:
            setattr(msg, arm_name, v)
        return
    sz = sizer_names(r)
    for m in r.members:
        if m.name in sz:
            continue
        v = value[m.name]
        comp = m.type != 'byte' and is_composite(schema, m.type)
        if m.kind == PLAIN:
            if sparse and _is_default(schema, m.type, v):
                continue
            if comp:
                build(getattr(msg, m.name), schema, m.type, v, sparse)
            else:
                setattr(msg, m.name, v)
        elif m.kind == OPTIONAL:
            if v is None:
                if not sparse:
                    setattr(msg, m.name, None)
            elif comp:
                setattr(msg, m.name, True)
                build(getattr(msg, m.name), schema, m.type, v, sparse)
            else:
                setattr(msg, m.name, v)
        elif m.type == 'byte':
            setattr(msg, m.name, v)
        else:
            if sparse and m.kind != FIXED and len(v) == 0:
                continue
            arr = getattr(msg, m.name)
            if not comp:
                arr[:] = v
            elif m.kind == FIXED:
                for i, e in enumerate(v):
                    build(arr[i], schema, m.type, e, sparse)
            else:
                del arr[:]
                for e in v:
                    build(arr.add(), schema, m.type, e, sparse)


def read(msg, schema, tname, names=None):
    """Read a live message back into a reference value through public attributes.
    names (optional list) collects enum .name strings encountered, for C02."""
    r = schema.resolve(tname)
    if r.kind == 'union':
        d = msg.discriminator
        arm = [a for a in r.arms if a[0] == d][0]
        return (arm[2], _read_field(getattr(msg, arm[2]), schema, arm[1], names))
    sz = sizer_names(r)
    out = {}
    for m in r.members:
        if m.name in sz:
            continue
        v = getattr(msg, m.name)
        if m.kind == PLAIN:
            out[m.name] = _read_field(v, schema, m.type, names)
        elif m.kind == OPTIONAL:
            out[m.name] = None if v is None else _read_field(v, schema, m.type, names)
        elif m.type == 'byte':
            out[m.name] = bytes(v) if not isinstance(v, str) else v
        else:
            out[m.name] = [_read_field(e, schema, m.type, names) for e in v]
    return out


def _read_field(v, schema, tname, names):
    r = schema.resolve(tname)
    if isinstance(r, str):
        return float(v) if r in FLOATS else int(v)
    if r.kind == 'enum':
        if names is not None:
            names.append(v.name)
        return int(v)
    return read(v, schema, tname, names)


def object_ids(msg, schema, tname, path='', out=None):
    """(path, id) of every composite and array object reachable from a live message through public attributes.
    A message is a tree: no object may appear under two paths, nor in two messages."""
    out = out if out is not None else []
    out.append((path or '.', id(msg)))
    r = schema.resolve(tname)
    if r.kind == 'union':
        arm = [a for a in r.arms if a[0] == msg.discriminator][0]
        if is_composite(schema, arm[1]):
            object_ids(getattr(msg, arm[2]), schema, arm[1], path + '.' + arm[2], out)
        return out
    sz = sizer_names(r)
    for m in r.members:
        if m.type == 'byte' or m.name in sz:
            continue
        comp = is_composite(schema, m.type)
        if m.kind in (PLAIN, OPTIONAL) and not comp:
            continue
        v = getattr(msg, m.name)
        if m.kind in (PLAIN, OPTIONAL):
            if comp and v is not None:
                object_ids(v, schema, m.type, path + '.' + m.name, out)
        else:
            out.append((path + '.' + m.name + '[]', id(v)))
            if comp:
                for i, e in enumerate(v):
                    object_ids(e, schema, m.type, '%s.%s[%d]' % (path, m.name, i), out)
    return out


def _first_array_op(cur, m, comp, rng):
    """One whole-array mutator as the FIRST write to this array object: sort, slice assignment, deletion, insert,
    extend, remove. Returns 1 when the array changed."""
    before = list(cur) if not comp else len(cur)
    growable = m.kind in (DYNAMIC, LIMITED, GREEDY)    # not EXT: arrays sharing a sizer have to keep equal lengths
    ops = ['sort', 'sort']
    if not comp:
        ops += ['slice']
    if growable and len(cur):
        ops += ['delitem', 'delslice'] + ([] if comp else ['remove'])
    if growable and not comp and len(cur) and (m.kind != LIMITED or len(cur) < m.size):
        ops += ['insert', 'extend']
    op = rng.choice(ops)
    try:
        if op == 'sort':
            if comp:
                cur.sort(key_function=lambda e: -id(e))
                return 0      # order of equal-looking elements: judged through the other message's observation only
            cur.sort(key_function=lambda x: -x)
            if list(cur) == before:
                cur.sort()
        elif op == 'slice':
            cur[:] = list(reversed(list(cur)))
        elif op == 'delitem':
            del cur[0]
        elif op == 'delslice':
            del cur[len(cur) // 2:]
        elif op == 'remove':
            cur.remove(cur[-1])
        elif op == 'insert':
            cur.insert(0, cur[-1])
        elif op == 'extend':
            cur.extend([cur[0]])
    except TypeError:
        return 0
    after = list(cur) if not comp else len(cur)
    return 1 if after != before else 0


def mutate_in_place(msg, schema, tname, rng, grow=False, array_ops=False):
    """Change leaf values of a live message in place (containers and nested objects are kept, so a
    message that aliases any of them changes too). With grow=True every dynamic/limited/greedy array that has
    room additionally gets one more element through append()/add() - an (empty) container shared with another
    message shows up there. With array_ops=True the first write to every array object is a whole-array mutator
    (sort, slice assignment, deletion, insert, extend, remove). Returns the number of leaves changed."""
    r = schema.resolve(tname)
    n = 0
    if r.kind == 'union':
        arm = [a for a in r.arms if a[0] == msg.discriminator][0]
        if is_composite(schema, arm[1]):
            return mutate_in_place(getattr(msg, arm[2]), schema, arm[1], rng, grow, array_ops)
        nv = _other_scalar(schema, arm[1], getattr(msg, arm[2]), rng)
        if nv is not None:
            setattr(msg, arm[2], nv)
            n += 1
        return n
    sz = sizer_names(r)
    for m in r.members:
        if m.name in sz:
            continue
        comp = m.type != 'byte' and is_composite(schema, m.type)
        cur = getattr(msg, m.name)
        if m.kind in (PLAIN, OPTIONAL):
            if cur is None:
                continue
            if comp:
                n += mutate_in_place(cur, schema, m.type, rng, grow, array_ops)
            else:
                nv = _other_scalar(schema, m.type, cur, rng)
                if nv is not None:
                    setattr(msg, m.name, nv)
                    n += 1
        elif m.type == 'byte':
            b = bytes(cur) if not isinstance(cur, str) else b''
            if len(b):
                setattr(msg, m.name, bytes(bytearray([b[0] ^ 0x55])) + b[1:])
                n += 1
        else:
            if array_ops and len(cur):
                n += _first_array_op(cur, m, comp, rng)
            for i in range(len(cur)):
                if comp:
                    n += mutate_in_place(cur[i], schema, m.type, rng, grow, array_ops)
                else:
                    nv = _other_scalar(schema, m.type, cur[i], rng)
                    if nv is not None:
                        cur[i] = nv
                        n += 1
            if grow and m.kind in (DYNAMIC, LIMITED, GREEDY) and (m.kind != LIMITED or len(cur) < m.size):
                if not comp:
                    cur.append(_a_scalar(schema, m.type))
                    n += 1
                elif not _has_unsized_bytes(schema, m.type):
                    cur.add()
                    n += 1
    return n


def _a_scalar(schema, tname):
    r = schema.resolve(tname)
    if isinstance(r, str):
        return 1.5 if r in FLOATS else 1
    return r.members[-1][1]


def _other_scalar(schema, tname, cur, rng):
    r = schema.resolve(tname)
    if isinstance(r, str):
        if r in FLOATS:
            return 2.5 if float(cur) != 2.5 else -4.0
        w, signed = INTS[r]
        hi = (1 << (8 * w - (1 if signed else 0))) - 1
        return int(cur) - 1 if int(cur) >= hi else int(cur) + 1
    if r.kind == 'enum':
        others = [v for _, v, _ in r.members if v != int(cur)]
        return rng.choice(others) if others else None
    return None
