"""Schema IR, renderers and generators (DESIGN 2.1).

The IR is deliberately independent of prophyc.model: validity rules of
docs/schema.rst / docs/encoding.rst are encoded here on their own.
"""
import itertools
import json

INTS = {
    'u8': (1, False), 'u16': (2, False), 'u32': (4, False), 'u64': (8, False),
    'i8': (1, True), 'i16': (2, True), 'i32': (4, True), 'i64': (8, True),
}
FLOATS = {'r32': 4, 'r64': 8}
SCALARS = list(INTS) + list(FLOATS)
PROPHY_NAME = {'r32': 'float', 'r64': 'double', 'byte': 'bytes'}

PLAIN, OPTIONAL, FIXED, DYNAMIC, LIMITED, GREEDY, EXT = (
    'plain', 'optional', 'fixed', 'dynamic', 'limited', 'greedy', 'ext')
ARRAY_KINDS = (FIXED, DYNAMIC, LIMITED, GREEDY, EXT)


class Const(object):
    kind = 'const'

    def __init__(self, name, value, text=None, isar_text=None):
        self.name, self.value, self.text = name, value, text
        self.isar_text = isar_text      # isar-only spelling of the value (shiftLeft / bitMaskOr operators)

    def deps(self):
        return []


class Enum(object):
    kind = 'enum'

    def __init__(self, name, members):
        self.name = name
        self.members = [tuple(m) if len(m) == 3 else (m[0], m[1], None) for m in members]  # (name, value, text)

    def deps(self):
        return []


class Typedef(object):
    kind = 'typedef'

    def __init__(self, name, target):
        self.name, self.target = name, target

    def deps(self):
        return [] if self.target in INTS or self.target in FLOATS else [self.target]


class Member(object):
    def __init__(self, name, type_, kind=PLAIN, size=None, sizer=None, size_text=None, isar_dims=None):
        self.name, self.type, self.kind = name, type_, kind
        self.size, self.sizer, self.size_text = size, sizer, size_text
        self.isar_dims = isar_dims      # (size text, size2 text): isar's two-dimensional spelling of size

    def to_json(self):
        d = {'name': self.name, 'type': self.type, 'kind': self.kind}
        if self.size is not None:
            d['size'] = self.size
        if self.sizer:
            d['sizer'] = self.sizer
        if self.size_text:
            d['size_text'] = self.size_text
        if self.isar_dims:
            d['isar_dims'] = list(self.isar_dims)
        return d


class Struct(object):
    kind = 'struct'

    def __init__(self, name, members):
        self.name, self.members = name, members

    def deps(self):
        return [m.type for m in self.members if m.type not in INTS and m.type not in FLOATS and m.type != 'byte']


class Union(object):
    kind = 'union'

    def __init__(self, name, arms):
        # arms: (disc, type, name) or (disc, type, name, disc_text)
        self.name = name
        self.arms = [tuple(a) if len(a) == 4 else (a[0], a[1], a[2], None) for a in arms]

    def deps(self):
        return [a[1] for a in self.arms if a[1] not in INTS and a[1] not in FLOATS]


class Schema(object):
    def __init__(self, defs=None):
        self.defs = []
        self.by_name = {}
        for d in defs or []:
            self.add(d)

    def add(self, d):
        assert d.name not in self.by_name, d.name
        self.defs.append(d)
        self.by_name[d.name] = d
        return d

    def resolve(self, tname):
        """Follow typedefs down to a scalar name, 'byte', or an Enum/Struct/Union def."""
        seen = 0
        while True:
            if tname in INTS or tname in FLOATS or tname == 'byte':
                return tname
            d = self.by_name[tname]
            if d.kind == 'typedef':
                tname = d.target
                seen += 1
                assert seen < 100
                continue
            return d

    def closure(self, tname):
        """Sub-schema with just the definitions tname needs (declaration order kept)."""
        need = set()

        def visit(n):
            if n in need or n not in self.by_name:
                return
            need.add(n)
            d = self.by_name[n]
            for x in d.deps():
                visit(x)
            if d.kind == 'struct':
                for m in d.members:
                    if m.size_text and m.size_text in self.by_name:
                        visit(m.size_text)
        visit(tname)
        return Schema([d for d in self.defs if d.name in need])

    def structs(self):
        return [d for d in self.defs if d.kind == 'struct']

    def unions(self):
        return [d for d in self.defs if d.kind == 'union']

    def composites(self):
        return [d for d in self.defs if d.kind in ('struct', 'union')]

    # ---- rendering -------------------------------------------------------
    def to_prophy(self, only=None):
        out = []
        for d in self.defs:
            if only is not None and d.name not in only:
                continue
            out.append(render_def_prophy(d))
        return "\n".join(out) + "\n"

    def to_json(self):
        out = []
        for d in self.defs:
            if d.kind == 'const':
                out.append({'k': 'const', 'name': d.name, 'value': d.value, 'text': d.text, 'isar_text': d.isar_text})
            elif d.kind == 'enum':
                out.append({'k': 'enum', 'name': d.name, 'members': [list(m) for m in d.members]})
            elif d.kind == 'typedef':
                out.append({'k': 'typedef', 'name': d.name, 'target': d.target})
            elif d.kind == 'struct':
                out.append({'k': 'struct', 'name': d.name, 'members': [m.to_json() for m in d.members]})
            else:
                out.append({'k': 'union', 'name': d.name, 'arms': [list(a) for a in d.arms]})
        return out

    @staticmethod
    def from_json(lst):
        s = Schema()
        for d in lst:
            k = d['k']
            if k == 'const':
                s.add(Const(d['name'], d['value'], d.get('text'), d.get('isar_text')))
            elif k == 'enum':
                s.add(Enum(d['name'], [tuple(m) for m in d['members']]))
            elif k == 'typedef':
                s.add(Typedef(d['name'], d['target']))
            elif k == 'struct':
                s.add(Struct(d['name'], [Member(m['name'], m['type'], m['kind'], m.get('size'), m.get('sizer'),
                                                m.get('size_text'), m.get('isar_dims')) for m in d['members']]))
            else:
                s.add(Union(d['name'], [tuple(a) for a in d['arms']]))
        return s


def pname(t):
    return PROPHY_NAME.get(t, t)


def render_member_prophy(m):
    t = pname(m.type)
    sz = m.size_text if m.size_text else m.size
    if m.kind == PLAIN:
        return "%s %s;" % (t, m.name)
    if m.kind == OPTIONAL:
        return "%s* %s;" % (t, m.name)
    if m.kind == FIXED:
        return "%s %s[%s];" % (t, m.name, sz)
    if m.kind == DYNAMIC:
        return "%s %s<>;" % (t, m.name)
    if m.kind == LIMITED:
        return "%s %s<%s>;" % (t, m.name, sz)
    if m.kind == GREEDY:
        return "%s %s<...>;" % (t, m.name)
    if m.kind == EXT:
        return "%s %s<@%s>;" % (t, m.name, m.sizer)
    raise AssertionError(m.kind)


def render_def_prophy(d):
    if d.kind == 'const':
        return "const %s = %s;" % (d.name, d.text if d.text else d.value)
    if d.kind == 'enum':
        body = ",\n".join("    %s = %s" % (n, t if t else v) for n, v, t in d.members)
        return "enum %s\n{\n%s\n};" % (d.name, body)
    if d.kind == 'typedef':
        return "typedef %s %s;" % (pname(d.target), d.name)
    if d.kind == 'struct':
        body = "\n".join("    " + render_member_prophy(m) for m in d.members)
        return "struct %s\n{\n%s\n};" % (d.name, body)
    if d.kind == 'union':
        body = "\n".join("    %s: %s %s;" % (t if t else disc, pname(tp), n) for disc, tp, n, t in d.arms)
        return "union %s\n{\n%s\n};" % (d.name, body)
    raise AssertionError(d.kind)


# ---------------------------------------------------------------------------
# Validity (independent of prophyc) and classification helpers
# ---------------------------------------------------------------------------

FIXED_S, DYNAMIC_S, UNLIMITED_S = 0, 1, 2


def type_stiffness(schema, tname, _memo=None):
    d = schema.resolve(tname)
    if isinstance(d, str):
        return FIXED_S
    if d.kind in ('enum', 'union'):
        return FIXED_S
    return struct_stiffness(schema, d)


def member_stiffness(schema, m):
    if m.kind in (OPTIONAL, FIXED, LIMITED):
        return FIXED_S
    if m.kind in (DYNAMIC, EXT):
        return DYNAMIC_S
    if m.kind == GREEDY:
        return UNLIMITED_S
    return type_stiffness(schema, m.type)


def struct_stiffness(schema, st):
    ks = [member_stiffness(schema, m) for m in st.members]
    if not ks:
        return FIXED_S
    if ks[-1] == UNLIMITED_S:
        return UNLIMITED_S
    return max(k for k in ks if k != UNLIMITED_S) if any(k != UNLIMITED_S for k in ks) else FIXED_S


def validate(schema):
    """Return list of rule violations (empty = valid per docs)."""
    errs = []
    seen = set()
    for d in schema.defs:
        for dep in d.deps():
            if dep not in seen:
                errs.append("%s uses undeclared %s" % (d.name, dep))
        seen.add(d.name)
        if d.kind == 'struct':
            names = set()
            for i, m in enumerate(d.members):
                if m.name in names:
                    errs.append("dup field")
                names.add(m.name)
                last = i == len(d.members) - 1
                k = member_stiffness(schema, m)
                if k == UNLIMITED_S and not last:
                    errs.append("%s.%s unlimited not last" % (d.name, m.name))
                if m.type == 'byte' and m.kind not in ARRAY_KINDS:
                    errs.append("plain bytes")
                if m.kind in ARRAY_KINDS + (OPTIONAL,) and m.type != 'byte':
                    ts = type_stiffness(schema, m.type)
                    if ts == UNLIMITED_S:
                        errs.append("%s.%s unlimited in array/optional" % (d.name, m.name))
                    if ts == DYNAMIC_S and m.kind in (FIXED, LIMITED, OPTIONAL):
                        errs.append("%s.%s dynamic in fixed/limited/optional" % (d.name, m.name))
                if m.kind in (FIXED, LIMITED) and not (m.size and m.size > 0):
                    errs.append("non-positive size")
                if m.kind == EXT:
                    prev = [x for x in d.members[:i] if x.name == m.sizer]
                    if not prev:
                        errs.append("sizer missing/after")
                    else:
                        s = prev[0]
                        r = schema.resolve(s.type)
                        if s.kind != PLAIN or r not in INTS:
                            errs.append("bad sizer type")
        if d.kind == 'union':
            if len(set(a[2] for a in d.arms)) != len(d.arms):
                errs.append("dup arm")
            if len(set(a[0] for a in d.arms)) != len(d.arms):
                errs.append("dup disc")
            for a in d.arms:
                if type_stiffness(schema, a[1]) != FIXED_S:
                    errs.append("dynamic arm")
    return errs


# ---------------------------------------------------------------------------
# Palette for exhaustive short sequences
# ---------------------------------------------------------------------------

def helper_defs():
    """Helper types shared by every exhaustive-sequence schema."""
    return [
        Enum('En', [('En_A', 1), ('En_B', 2), ('En_C', 0x10203), ('En_B2', 2)]),
        Struct('Fx2', [Member('a', 'u8'), Member('b', 'u16')]),                       # size 4 align 2
        Struct('Fx8', [Member('a', 'u64'), Member('b', 'u8')]),                       # size 16 align 8
        Struct('FxO', [Member('a', 'u8', OPTIONAL), Member('b', 'u8')]),              # size 8 align 4
        Struct('Fx1', [Member('a', 'u8'), Member('b', 'u8'), Member('c', 'u8')]),     # size 3 align 1
        Struct('Dy4', [Member('x', 'u16', DYNAMIC)]),                                # dynamic align 4
        Struct('Dy8', [Member('x', 'u64', DYNAMIC), Member('y', 'u8')]),              # dynamic align 8
        Struct('Dy1', [Member('n', 'u8'), Member('x', 'u8', EXT, sizer='n')]),         # dynamic align 1
        Union('Un4', [(1, 'u8', 'a'), (2, 'u16', 'b')]),                              # size 8 align 4
        Union('Un8', [(1, 'u64', 'a'), (2, 'u8', 'b'), (3, 'Fx2', 'c')]),             # size 16 align 8
        Struct('Fx12', [Member('a', 'u32'), Member('b', 'u32'), Member('c', 'u32')]),  # size 12 align 4
        Union('Un12', [(1, 'u64', 'a'), (2, 'Fx12', 'b')]),                           # size 24 align 8: largest arm 4-aligned
        # a chain nested ten levels deep (struct / array element / optional / union arm in turn)
        Struct('Deep1', [Member('v', 'u8'), Member('e', 'En')]),
        Struct('Deep2', [Member('d', 'Deep1'), Member('v', 'u16')]),
        Struct('Deep3', [Member('d', 'Deep2', FIXED, 2)]),
        Union('Deep4', [(1, 'Deep3', 'd'), (2, 'u8', 'v')]),
        Struct('Deep5', [Member('v', 'u8'), Member('d', 'Deep4')]),
        Struct('Deep6', [Member('d', 'Deep5', OPTIONAL)]),
        Struct('Deep7', [Member('d', 'Deep6'), Member('b', 'byte', FIXED, 2)]),
        Struct('Deep8', [Member('d', 'Deep7', LIMITED, 2)]),
        Struct('Deep9', [Member('d', 'Deep8')]),
        Struct('Deep10', [Member('v', 'u32'), Member('d', 'Deep9')]),
        Typedef('TU64', 'u64'), Typedef('TTU64', 'TU64'), Typedef('TFx8', 'Fx8'), Typedef('TTFx8', 'TFx8'),
        Typedef('TDy4', 'Dy4'),                                                       # alias of a dynamic struct
        Typedef('TFx2', 'Fx2'),                                                       # alias of a fixed struct
        Struct('Gr1', [Member('x', 'u8'), Member('t', 'u8', GREEDY)]),                # unlimited align 1
        Struct('Gr4', [Member('x', 'u32'), Member('t', 'u16', GREEDY)]),              # unlimited align 4
    ]


# palette entry: (tag, builder(name) -> [Member...]); ext entries add their own sizer
PALETTE = [
    ('u8', lambda n: [Member(n, 'u8')]),
    ('u16', lambda n: [Member(n, 'u16')]),
    ('u32', lambda n: [Member(n, 'u32')]),
    ('u64', lambda n: [Member(n, 'u64')]),
    ('i16', lambda n: [Member(n, 'i16')]),
    ('r64', lambda n: [Member(n, 'r64')]),
    ('En', lambda n: [Member(n, 'En')]),
    ('u8*', lambda n: [Member(n, 'u8', OPTIONAL)]),
    ('u16*', lambda n: [Member(n, 'u16', OPTIONAL)]),
    ('u64*', lambda n: [Member(n, 'u64', OPTIONAL)]),
    ('En*', lambda n: [Member(n, 'En', OPTIONAL)]),
    ('Fx2*', lambda n: [Member(n, 'Fx2', OPTIONAL)]),
    ('Fx8*', lambda n: [Member(n, 'Fx8', OPTIONAL)]),
    ('Fx2', lambda n: [Member(n, 'Fx2')]),
    ('Fx8', lambda n: [Member(n, 'Fx8')]),
    ('FxO', lambda n: [Member(n, 'FxO')]),
    ('Fx1', lambda n: [Member(n, 'Fx1')]),
    ('Dy4', lambda n: [Member(n, 'Dy4')]),
    ('Dy8', lambda n: [Member(n, 'Dy8')]),
    ('Dy1', lambda n: [Member(n, 'Dy1')]),
    ('Un4', lambda n: [Member(n, 'Un4')]),
    ('Un8', lambda n: [Member(n, 'Un8')]),
    ('u8[3]', lambda n: [Member(n, 'u8', FIXED, 3)]),
    ('Fx2[2]', lambda n: [Member(n, 'Fx2', FIXED, 2)]),
    ('FxO[2]', lambda n: [Member(n, 'FxO', FIXED, 2)]),
    ('u16<2>', lambda n: [Member(n, 'u16', LIMITED, 2)]),
    ('FxO<2>', lambda n: [Member(n, 'FxO', LIMITED, 2)]),
    ('u8<>', lambda n: [Member(n, 'u8', DYNAMIC)]),
    ('u64<>', lambda n: [Member(n, 'u64', DYNAMIC)]),
    ('Dy4<>', lambda n: [Member(n, 'Dy4', DYNAMIC)]),
    ('Fx2<>', lambda n: [Member(n, 'Fx2', DYNAMIC)]),
    ('bytes<>', lambda n: [Member(n, 'byte', DYNAMIC)]),
    ('bytes[3]', lambda n: [Member(n, 'byte', FIXED, 3)]),
    ('bytes<5>', lambda n: [Member(n, 'byte', LIMITED, 5)]),
    ('u16<@>', lambda n: [Member('n_' + n, 'u8'), Member(n, 'u16', EXT, sizer='n_' + n)]),
    ('u32<@64>', lambda n: [Member('n_' + n, 'u64'), Member(n, 'u32', EXT, sizer='n_' + n)]),      # 64-bit counter
    ('Fx2<@i16>', lambda n: [Member('n_' + n, 'i16'), Member(n, 'Fx2', EXT, sizer='n_' + n)]),     # signed counter
    ('En[2]', lambda n: [Member(n, 'En', FIXED, 2)]),                                               # arrays of enums
    ('En<>', lambda n: [Member(n, 'En', DYNAMIC)]),
    ('Un12', lambda n: [Member(n, 'Un12')]),
    ('TDy4<>', lambda n: [Member(n, 'TDy4', DYNAMIC)]),
    ('TFx2*', lambda n: [Member(n, 'TFx2', OPTIONAL)]),
]
PALETTE_TAGS = [t for t, _ in PALETTE]
PALETTE_MAP = dict(PALETTE)

# usable in explicitly listed sequences (canaries) only: they do not take part in the exhaustive enumeration
EXTRA = [
    ('TU64*', lambda n: [Member(n, 'TU64', OPTIONAL)]),          # optional of a typedef of an 8-byte builtin
    ('TTU64*', lambda n: [Member(n, 'TTU64', OPTIONAL)]),        # ... through two typedef levels
    ('TFx8*', lambda n: [Member(n, 'TFx8', OPTIONAL)]),          # optional of a typedef of an 8-aligned struct
    ('TTFx8*', lambda n: [Member(n, 'TTFx8', OPTIONAL)]),
    ('Un4*', lambda n: [Member(n, 'Un4', OPTIONAL)]),            # optionals of types whose C++ object is not wire-sized
    ('Un8*', lambda n: [Member(n, 'Un8', OPTIONAL)]),
    ('Un12*', lambda n: [Member(n, 'Un12', OPTIONAL)]),
    ('FxO*', lambda n: [Member(n, 'FxO', OPTIONAL)]),
    ('Deep10', lambda n: [Member(n, 'Deep10')]),
    ('Deep10<>', lambda n: [Member(n, 'Deep10', DYNAMIC)]),
    ('TTU64', lambda n: [Member(n, 'TTU64')]),
    ('TTU64[2]', lambda n: [Member(n, 'TTU64', FIXED, 2)]),
]
# every scalar type in every member form (the palette holds a sample of them only)
for _t in SCALARS:
    for _tag, _mk in ((_t, lambda n, t=_t: [Member(n, t)]), (_t + '*', lambda n, t=_t: [Member(n, t, OPTIONAL)]),
                      (_t + '[2]', lambda n, t=_t: [Member(n, t, FIXED, 2)]), (_t + '<>', lambda n, t=_t: [Member(n, t, DYNAMIC)]),
                      (_t + '<3>', lambda n, t=_t: [Member(n, t, LIMITED, 3)])):
        if _tag not in PALETTE_MAP and _tag not in dict(EXTRA):
            EXTRA.append((_tag, _mk))
EXTRA_MAP = dict(EXTRA)

GREEDY_TAILS = [
    ('u8<...>', lambda n: [Member(n, 'u8', GREEDY)]),
    ('u32<...>', lambda n: [Member(n, 'u32', GREEDY)]),
    ('Fx2<...>', lambda n: [Member(n, 'Fx2', GREEDY)]),
    ('bytes<...>', lambda n: [Member(n, 'byte', GREEDY)]),
    ('Dy4<...>', lambda n: [Member(n, 'Dy4', GREEDY)]),
    ('En<...>', lambda n: [Member(n, 'En', GREEDY)]),
    ('Gr1', lambda n: [Member(n, 'Gr1')]),          # nested unlimited struct as the last member
    ('Gr4', lambda n: [Member(n, 'Gr4')]),
]
GREEDY_MAP = dict(GREEDY_TAILS)


def seq_members(tags):
    mem = []
    for i, t in enumerate(tags):
        b = PALETTE_MAP.get(t) or EXTRA_MAP.get(t) or GREEDY_MAP[t]
        mem.extend(b("f%d" % i))
    return mem


def all_sequences(maxlen):
    for n in range(1, maxlen + 1):
        for tags in itertools.product(PALETTE_TAGS, repeat=n):
            yield tags


def seq_schema(seqs, prefix='S', wrap=False):
    """Build one schema holding a struct per tag sequence.

    Returns (schema, [struct names], {struct name: tags}).
    With wrap=True, every *fixed* struct additionally gets wrappers
    (fixed array, limited array, optional, union arm, non-last field) and every
    non-unlimited struct gets a dynamic-array and a non-last-field wrapper.
    """
    s = Schema(helper_defs())
    names = []
    tagmap = {}
    for i, tags in enumerate(seqs):
        name = "%s%d" % (prefix, i)
        st = s.add(Struct(name, seq_members(tags)))
        names.append(name)
        tagmap[name] = list(tags)
        if wrap:
            k = struct_stiffness(s, st)
            if k == FIXED_S:
                s.add(Struct(name + "_WF", [Member('p', 'u8'), Member('w', name, FIXED, 2), Member('q', 'u8')]))
                s.add(Struct(name + "_WL", [Member('p', 'u8'), Member('w', name, LIMITED, 2), Member('q', 'u8')]))
                s.add(Struct(name + "_WO", [Member('p', 'u8'), Member('w', name, OPTIONAL), Member('q', 'u8')]))
                s.add(Union(name + "_WU", [(1, 'u8', 'p'), (2, name, 'w')]))
                s.add(Struct(name + "_WUS", [Member('p', 'u8'), Member('w', name + "_WU"), Member('q', 'u8')]))
                for suffix in ("_WF", "_WL", "_WO", "_WU", "_WUS"):
                    names.append(name + suffix)
                    tagmap[name + suffix] = list(tags) + [suffix]
            if k != UNLIMITED_S:
                s.add(Struct(name + "_WD", [Member('p', 'u8'), Member('w', name, DYNAMIC), Member('q', 'u8')]))
                s.add(Struct(name + "_WN", [Member('p', 'u8'), Member('w', name), Member('q', 'u16')]))
                for suffix in ("_WD", "_WN"):
                    names.append(name + suffix)
                    tagmap[name + suffix] = list(tags) + [suffix]
            else:
                s.add(Struct(name + "_WT", [Member('p', 'u8'), Member('w', name)]))
                s.add(Struct(name + "_WT8", [Member('p', 'u64'), Member('q', 'u8'), Member('w', name)]))
                for suffix in ("_WT", "_WT8"):
                    names.append(name + suffix)
                    tagmap[name + suffix] = list(tags) + [suffix]
    return s, names, tagmap


# ---------------------------------------------------------------------------
# Random deep schemas
# ---------------------------------------------------------------------------

def random_schema(rng, ntypes=None, cpp_full=False, allow_float=True, allow_greedy=True, prefix='T',
                  allow_shared_sizer=True):
    """Random valid schema. cpp_full=True restricts to what the C++ full generator documents:
    one ext-sized array per sizer."""
    s = Schema()
    ntypes = ntypes or rng.randint(3, 12)
    fixed_types = []      # names usable where a fixed type is needed
    dyn_types = []        # dynamic (not unlimited) struct names
    unl_types = []        # unlimited struct names (usable only as last plain member)
    enums = []
    consts = []
    scal = list(INTS) + (list(FLOATS) if allow_float else [])
    counter = [0]

    def fresh(p):
        counter[0] += 1
        return "%s%d" % (p, counter[0])

    from .wire import Wire
    wire = Wire(s)

    def pick_fixed(max_size=256):
        r = rng.random()
        if fixed_types and r < 0.45:
            t = rng.choice(fixed_types)
            if wire.tinfo(t)[0] <= max_size:     # keeps messages small: nested arrays multiply
                return t
        return rng.choice(scal)

    for _ in range(ntypes):
        r = rng.random()
        if r < 0.08:
            c = s.add(Const(fresh(prefix + 'C'), rng.choice([1, 2, 3, 4, 5, 7])))
            consts.append(c)
        elif r < 0.2:
            n = rng.randint(1, 4)
            vals = rng.sample([0, 1, 2, 3, 5, 9, 100, 255, 256, 65535, 0x10000, 0x7fffffff, 0xfffffffe, 0xffffffff], n)
            if rng.random() < 0.5:
                vals.sort()
            name = fresh(prefix + 'E')
            e = s.add(Enum(name, [("%s_%d" % (name, i), v) for i, v in enumerate(vals)]))
            enums.append(e)
            fixed_types.append(name)
        elif r < 0.3 and (fixed_types or True):
            tgt = pick_fixed() if rng.random() < 0.7 or not dyn_types else rng.choice(dyn_types)
            name = fresh(prefix + 'D')
            s.add(Typedef(name, tgt))
            if tgt in dyn_types:
                dyn_types.append(name)
            else:
                fixed_types.append(name)
        elif r < 0.42:
            n = rng.randint(1, 4)
            # the C++ full back-end cannot compile discriminators >= 2**31 (C12 finding): keep them out of cpp workloads
            discs = rng.sample([0, 1, 2, 3, 7, 255, 1000, 0x7fffffff if cpp_full else 0xffffffff], n)
            name = fresh(prefix + 'U')
            arms = []
            for i, dv in enumerate(discs):
                arms.append((dv, pick_fixed(), "a%d" % i))
            s.add(Union(name, arms))
            fixed_types.append(name)
        else:
            name = fresh(prefix + 'S')
            nm = rng.randint(1, 6)
            members = []
            int_fields = []   # candidate sizers (name)
            used_sizers = set()
            for i in range(nm):
                last = i == nm - 1
                fname = "m%d" % i
                k = rng.random()
                if k < 0.30:
                    t = pick_fixed()
                    members.append(Member(fname, t))
                    if s.resolve(t) in INTS:
                        int_fields.append(fname)
                elif k < 0.40:
                    members.append(Member(fname, pick_fixed(), OPTIONAL))
                elif k < 0.50:
                    if rng.random() < 0.25:
                        members.append(Member(fname, 'byte', FIXED, rng.randint(1, 5)))
                    else:
                        c = rng.choice(consts) if consts and rng.random() < 0.3 else None
                        if c:
                            members.append(Member(fname, pick_fixed(48), FIXED, c.value, size_text=c.name))
                        else:
                            members.append(Member(fname, pick_fixed(48), FIXED, rng.randint(1, 3)))
                elif k < 0.60:
                    if rng.random() < 0.25:
                        members.append(Member(fname, 'byte', LIMITED, rng.randint(1, 5)))
                    else:
                        members.append(Member(fname, pick_fixed(48), LIMITED, rng.randint(1, 3)))
                elif k < 0.75:
                    r2 = rng.random()
                    if r2 < 0.2:
                        members.append(Member(fname, 'byte', DYNAMIC))
                    elif r2 < 0.5 and dyn_types:
                        members.append(Member(fname, rng.choice(dyn_types), DYNAMIC))
                    else:
                        members.append(Member(fname, pick_fixed(), DYNAMIC))
                elif k < 0.83:
                    cands = [f for f in int_fields if allow_shared_sizer and not cpp_full or f not in used_sizers]
                    if cands:
                        sz = rng.choice(cands)
                        used_sizers.add(sz)
                        t = 'byte' if rng.random() < 0.2 else pick_fixed()
                        members.append(Member(fname, t, EXT, sizer=sz))
                    else:
                        members.append(Member(fname, pick_fixed()))
                elif k < 0.92 and dyn_types:
                    members.append(Member(fname, rng.choice(dyn_types)))
                elif last and allow_greedy and k >= 0.92:
                    r2 = rng.random()
                    if r2 < 0.2 and unl_types:
                        members.append(Member(fname, rng.choice(unl_types)))
                    elif r2 < 0.25:
                        members.append(Member(fname, 'byte', GREEDY))
                    elif r2 < 0.4 and dyn_types:
                        members.append(Member(fname, rng.choice(dyn_types), GREEDY))
                    else:
                        members.append(Member(fname, pick_fixed(), GREEDY))
                else:
                    t = pick_fixed()
                    members.append(Member(fname, t))
                    if s.resolve(t) in INTS:
                        int_fields.append(fname)
            # sizers must not be used as sizer if they were already consumed as plain? fine.
            st = s.add(Struct(name, members))
            k = struct_stiffness(s, st)
            if k == FIXED_S:
                fixed_types.append(name)
            elif k == DYNAMIC_S:
                dyn_types.append(name)
            else:
                unl_types.append(name)
    errs = validate(s)
    assert not errs, (errs, s.to_prophy())
    return s


def dumps(schema):
    return json.dumps(schema.to_json())


# ---------------------------------------------------------------------------
# isar XML (+ patch) rendering of the expressible subset
# ---------------------------------------------------------------------------

ISAR_PRIMITIVE = {
    'u8': "8 bit integer unsigned", 'u16': "16 bit integer unsigned", 'u32': "32 bit integer unsigned",
    'u64': "64 bit integer unsigned", 'i8': "8 bit integer signed", 'i16': "16 bit integer signed",
    'i32': "32 bit integer signed", 'i64': "64 bit integer signed", 'r32': "32 bit float", 'r64': "64 bit float"}


def _xml_escape(s):
    return str(s).replace('&', '&amp;').replace('<', '&lt;').replace('>', '&gt;').replace('"', '&quot;')


def render_def_isar(d, patch, as_message=False):
    """XML text of one definition; appends patch lines needed to express what isar cannot."""
    if d.kind == 'const':
        return '<constant name="%s" value="%s"/>' % (d.name, _xml_escape(d.isar_text or (d.text if d.text else d.value)))
    if d.kind == 'enum':
        body = ''.join('\n    <enum-member name="%s" value="%s"/>' % (n, _xml_escape(t if t else v)) for n, v, t in d.members)
        return '<enum name="%s">%s\n</enum>' % (d.name, body)
    if d.kind == 'typedef':
        if d.target in ISAR_PRIMITIVE:
            return '<typedef name="%s" primitiveType="%s"/>' % (d.name, ISAR_PRIMITIVE[d.target])
        return '<typedef name="%s" type="%s"/>' % (d.name, d.target)
    if d.kind == 'union':
        body = ''.join('\n    <member name="%s" type="%s" discriminatorValue="%s"/>' % (n, tp, _xml_escape(t if t else disc))
                       for disc, tp, n, t in d.arms)
        return '<union name="%s">%s\n</union>' % (d.name, body)
    out = []
    for m in d.members:
        t = 'u8' if m.type == 'byte' else m.type
        if m.type == 'byte':
            patch.append('%s type %s byte' % (d.name, m.name))
        sz = _xml_escape(m.size_text if m.size_text else m.size)
        if m.isar_dims:
            sz = '%s" size2="%s' % (_xml_escape(m.isar_dims[0]), _xml_escape(m.isar_dims[1]))
        if m.kind == PLAIN:
            out.append('<member name="%s" type="%s"/>' % (m.name, t))
        elif m.kind == OPTIONAL:
            out.append('<member name="%s" type="%s" optional="true"/>' % (m.name, t))
        elif m.kind == FIXED:
            out.append('<member name="%s" type="%s"><dimension size="%s"/></member>' % (m.name, t, sz))
        elif m.kind == DYNAMIC:
            out.append('<member name="%s" type="%s"><dimension isVariableSize="true" variableSizeFieldName="num_of_%s"/>'
                       '</member>' % (m.name, t, m.name))
        elif m.kind == LIMITED:
            out.append('<member name="%s" type="%s"><dimension isVariableSize="true" size="%s" '
                       'variableSizeFieldName="num_of_%s"/></member>' % (m.name, t, sz, m.name))
        elif m.kind == EXT:
            out.append('<member name="%s" type="%s"><dimension isVariableSize="true" variableSizeFieldName="@%s"/>'
                       '</member>' % (m.name, t, m.sizer))
        elif m.kind == GREEDY:
            out.append('<member name="%s" type="%s"><dimension size="1"/></member>' % (m.name, t))
            patch.append('%s greedy %s' % (d.name, m.name))
    tag = 'message' if as_message else 'struct'
    return '<%s name="%s">%s\n</%s>' % (tag, d.name, ''.join('\n    ' + x for x in out), tag)


def isar_expressible(schema):
    """Limited arrays inside <message> elements become dynamic in isar; everything else of the IR is expressible
    (greedy and bytes through a patch)."""
    return True


def to_isar(schema, order=None, messages=()):
    """-> (xml text, patch text or None). order: definition names in the textual order wanted."""
    patch = []
    names = order if order is not None else [d.name for d in schema.defs]
    body = []
    for n in names:
        d = schema.by_name[n]
        body.append(render_def_isar(d, patch, as_message=n in messages))
    xml = '<?xml version="1.0" encoding="utf-8"?>\n<x>\n%s\n</x>\n' % '\n'.join(body)
    return xml, ('\n'.join(patch) + '\n') if patch else None


def to_isar_variants(schema, rng, split=None):
    # split: a dict that receives {'inc.xml': text} when the rendering is cut into an included and an including file
    """isar XML + patch using, per member/struct, a randomly chosen one of the documented ways to say the same thing
    (dimension forms, message vs struct, negative enumerators, and every patch action).
    -> (xml, patch text or None, forms used)"""
    patch = []
    forms = set()
    late_rules = []
    body = []
    for d in schema.defs:
        if d.kind == 'enum':
            mem = []
            for n, v, t in d.members:
                if not t and v >= 0x80000000 and rng.random() < 0.7:
                    # isar spells 32-bit values with the top bit set as negative numbers, in any integer notation
                    neg = v - (1 << 32)
                    style = rng.choice(['dec', 'hex', 'oct', 'bin'])
                    forms.add('negative-enumerator' + ('' if style == 'dec' else '-' + style))
                    txt = {'dec': '%d' % neg, 'hex': '-0x%X' % -neg, 'oct': '-0o%o' % -neg, 'bin': '-0b' + bin(-neg)[2:]}[style]
                    mem.append('\n    <enum-member name="%s" value="%s"/>' % (n, txt))
                elif not t and rng.random() < 0.3:
                    forms.add('enumerator-notation')
                    mem.append('\n    <enum-member name="%s" value="%s"/>' % (n, rng.choice(['0x%X', '0o%o', '%d']) % v))
                else:
                    mem.append('\n    <enum-member name="%s" value="%s"/>' % (n, _xml_escape(t if t else v)))
            body.append('<enum name="%s">%s\n</enum>' % (d.name, ''.join(mem)))
            continue
        if d.kind != 'struct':
            body.append(render_def_isar(d, patch))
            continue
        # struct as union + 'struct' patch (only all-plain structs)
        if all(m.kind == PLAIN for m in d.members) and rng.random() < 0.15:
            forms.add('patch-struct')
            arms = ''.join('\n    <member name="%s" type="%s" discriminatorValue="%d"/>' % (m.name, m.type, i + 1)
                           for i, m in enumerate(d.members))
            body.append('<union name="%s">%s\n</union>' % (d.name, arms))
            patch.append('%s struct' % d.name)
            continue
        sizers = set(m.sizer for m in d.members if m.kind == EXT)
        sizer_users = {}
        for m in d.members:
            if m.kind == EXT:
                sizer_users.setdefault(m.sizer, []).append(m)
        has_limited = any(m.kind == LIMITED for m in d.members)
        as_message = (not has_limited) and rng.random() < 0.3
        xml_name = d.name
        if rng.random() < 0.1:
            forms.add('patch-rename-node')
            xml_name = d.name + 'Old'
        local_patch = []
        out = []
        skip = set()
        opt_arrays = set()
        for idx, m in enumerate(d.members):
            if m.name in skip:
                continue
            t = 'u8' if m.type == 'byte' else m.type
            name = m.name
            pre = []
            if m.type == 'byte':
                local_patch.append('%s type %s byte' % (xml_name, m.name))
            sz = _xml_escape(m.size_text if m.size_text else m.size)
            r = rng.random()
            if m.name in opt_arrays:
                r = 0.99        # the forms that carry a <dimension> element
            nxt_ = d.members[idx + 1] if idx + 1 < len(d.members) else None
            if (m.kind == PLAIN and m.name not in sizers and m.type == 'u32' and nxt_ is not None
                    and m.name == 'has_' + nxt_.name and nxt_.kind in (FIXED, DYNAMIC, LIMITED, EXT) and rng.random() < 0.85):
                # isar's optional array: optional="true" on a member with a dimension stands for a u32 has_<name>
                # in front of the (never optional) array
                forms.add('optional-array:' + nxt_.kind)
                opt_arrays.add(nxt_.name)
                continue
            if (m.kind == PLAIN and m.name not in sizers and m.type in INTS and nxt_ is not None and nxt_.kind == FIXED
                    and nxt_.type != 'byte' and rng.random() < 0.3):
                # a counted array in the XML (this integer as its length field) made a fixed array by a 'static' rule:
                # the length field stays behind as an ordinary integer
                forms.add('patch-static-on-counted-array')
                out.append('<member name="%s" type="%s"><dimension isVariableSize="true" variableSizeFieldName="%s" '
                           'variableSizeFieldType="%s"/></member>' % (nxt_.name, nxt_.type, m.name, m.type))
                local_patch.append('%s static %s %s' % (xml_name, nxt_.name, nxt_.size_text if nxt_.size_text else nxt_.size))
                skip.add(nxt_.name)
                continue
            if m.kind == PLAIN and m.name not in sizers:
                if r < 0.08 and out:      # isar drops a struct element without members, keep one in the XML
                    forms.add('patch-insert')
                    # index among the model's members at the time the rule runs: earlier members are already in
                    # their final form (dynamic/limited arrays carry their counter as a member of its own)
                    midx = sum(2 if x.kind in (DYNAMIC, LIMITED) else 1 for x in d.members[:idx])
                    local_patch.append('%s insert %d %s %s' % (xml_name, midx, m.name, t))
                    continue
                if r < 0.16:
                    forms.add('patch-rename-member')
                    out.append('<member name="%s_x" type="%s"/>' % (m.name, t))
                    local_patch.append('%s rename %s_x %s' % (xml_name, m.name, m.name))
                    continue
                if r < 0.24:
                    forms.add('patch-type')
                    out.append('<member name="%s" type="u64"/>' % m.name)
                    local_patch.append('%s type %s %s' % (xml_name, m.name, t))
                    continue
                if r < 0.30:
                    # the member to remove sits after or before the real one (so it may be the very first member)
                    pair = ['<member name="%s" type="%s"/>' % (m.name, t), '<member name="%s_bogus" type="u64"/>' % m.name]
                    if rng.random() < 0.5:
                        pair.reverse()
                        forms.add('patch-remove-first' if not out else 'patch-remove')
                    else:
                        forms.add('patch-remove')
                    out.extend(pair)
                    local_patch.append('%s remove %s_bogus' % (xml_name, m.name))
                    continue
                out.append('<member name="%s" type="%s"/>' % (m.name, t))
            elif m.kind == PLAIN:
                # a sizer: may be expressed through the array's dimension (isVariableSize + variableSizeFieldType)
                users = sizer_users[m.name]
                nxt = d.members[idx + 1] if idx + 1 < len(d.members) else None
                if (len(users) == 1 and nxt is users[0] and m.name == nxt.name + '_len' and m.type in INTS
                        and rng.random() < 0.7):
                    forms.add('isVariableSize+variableSizeFieldType')
                    nt = 'u8' if nxt.type == 'byte' else nxt.type
                    if nxt.type == 'byte':
                        local_patch.append('%s type %s byte' % (xml_name, nxt.name))
                    extra = ' size="7"' if as_message else ''
                    out.append('<member name="%s" type="%s"><dimension isVariableSize="true"%s '
                               'variableSizeFieldType="%s"/></member>' % (nxt.name, nt, extra, m.type))
                    skip.add(nxt.name)
                    continue
                out.append('<member name="%s" type="%s"/>' % (m.name, t))
            elif m.kind == OPTIONAL:
                out.append('<member name="%s" type="%s" optional="true"/>' % (m.name, t))
            elif m.kind == FIXED:
                if r < 0.2 and not m.size_text:
                    forms.add('patch-static')
                    out.append('<member name="%s" type="%s"/>' % (m.name, t))
                    local_patch.append('%s static %s %s' % (xml_name, m.name, m.size))
                elif r < 0.5 and not m.size_text and m.size % 2 == 0:
                    forms.add('size*size2')
                    out.append('<member name="%s" type="%s"><dimension size="%d" size2="2"/></member>' % (m.name, t, m.size // 2))
                else:
                    forms.add('size')
                    out.append('<member name="%s" type="%s"><dimension size="%s"/></member>' % (m.name, t, sz))
            elif m.kind == DYNAMIC:
                if r < 0.25:
                    forms.add('patch-dynamic')
                    out.append('<member name="num_of_%s" type="u32"/>' % m.name)
                    out.append('<member name="%s" type="%s"><dimension size="3"/></member>' % (m.name, t))
                    local_patch.append('%s dynamic %s num_of_%s' % (xml_name, m.name, m.name))
                else:
                    forms.add('isVariableSize' + ('-in-message' if as_message else ''))
                    extra = ' size="5"' if as_message and rng.random() < 0.5 else ''
                    out.append('<member name="%s" type="%s"><dimension isVariableSize="true"%s '
                               'variableSizeFieldName="num_of_%s"/></member>' % (m.name, t, extra, m.name))
            elif m.kind == LIMITED:
                # two-dimensional spelling size x size2 (flattened to the product) for a random divisor
                divs = [k for k in range(2, m.size + 1) if m.size % k == 0] if not m.size_text else []
                if divs and rng.random() < 0.5:
                    k = rng.choice(divs)
                    dim = 'size="%d" size2="%d"' % (m.size // k, k)
                    two = '+size2'
                else:
                    dim, two = 'size="%s"' % sz, ''
                if r < 0.3:
                    forms.add('patch-limited' + two)
                    out.append('<member name="num_of_%s" type="u32"/>' % m.name)
                    out.append('<member name="%s" type="%s"><dimension %s/></member>' % (m.name, t, dim))
                    local_patch.append('%s limited %s num_of_%s' % (xml_name, m.name, m.name))
                else:
                    forms.add('isVariableSize+size' + two)
                    out.append('<member name="%s" type="%s"><dimension isVariableSize="true" %s '
                               'variableSizeFieldName="num_of_%s"/></member>' % (m.name, t, dim, m.name))
            elif m.kind == EXT:
                if m.sizer == 'numOf' + m.name[0].upper() + m.name[1:] and r < 0.7:
                    forms.add('THIS_IS_VARIABLE_SIZE_ARRAY')
                    out.append('<member name="%s" type="%s"><dimension size="THIS_IS_VARIABLE_SIZE_ARRAY"/></member>' % (m.name, t))
                else:
                    forms.add('@sizer')
                    out.append('<member name="%s" type="%s"><dimension isVariableSize="true" '
                               'variableSizeFieldName="@%s"/></member>' % (m.name, t, m.sizer))
            elif m.kind == GREEDY:
                forms.add('patch-greedy')
                out.append('<member name="%s" type="%s"><dimension size="1"/></member>' % (m.name, t))
                if rng.random() < 0.5:
                    # members behind the greedy field in the XML, removed by rules before or after the greedy rule
                    k = rng.randint(1, 2)
                    bog = ['%s_tail%d' % (m.name, i) for i in range(k)]
                    out.extend('<member name="%s" type="%s"/>' % (b_, rng.choice(['u8', 'u32', 'u64'])) for b_ in bog)
                    rules = ['%s greedy %s' % (xml_name, m.name)] + ['%s remove %s' % (xml_name, b_) for b_ in bog]
                    if rng.random() < 0.5:
                        rules.reverse()
                        forms.add('patch-remove-then-greedy')
                    else:
                        forms.add('patch-greedy-then-remove')
                    local_patch.extend(rules)
                else:
                    local_patch.append('%s greedy %s' % (xml_name, m.name))
            if m.name in opt_arrays:
                out[-1] = out[-1].replace('"><dimension', '" optional="true"><dimension', 1)
        if xml_name != d.name:
            local_patch.append('%s rename %s' % (xml_name, d.name))
            # rules name messages of the *input*: one addressed to the new name (no such message there) is ignored
            late_rules.append('%s type %s u64' % (d.name, d.members[0].name))
            forms.add('patch-rule-for-the-new-name-of-a-renamed-node')
        patch.extend(local_patch)
        tag = 'message' if as_message else 'struct'
        if as_message:
            forms.add('message')
        body.append('<%s name="%s">%s\n</%s>' % (tag, xml_name, ''.join('\n    ' + x for x in out), tag))
    patch.extend(late_rules)
    # a 'type' rule and the array rule of the same field commute: put the type rule last half of the time
    ARRAY_RULES = ('greedy', 'dynamic', 'limited', 'static')
    out_patch, pending = [], {}
    for i, line in enumerate(patch):
        w_ = line.split()
        key = (w_[0], w_[2]) if len(w_) >= 3 else None
        if len(w_) == 4 and w_[1] == 'type' and rng.random() < 0.5 and any(
                x.split()[0] == w_[0] and len(x.split()) >= 3 and x.split()[1] in ARRAY_RULES and x.split()[2] == w_[2]
                for x in patch[i + 1:]):
            pending[key] = line
            forms.add('patch-type-after-array-rule')
            continue
        out_patch.append(line)
        if len(w_) >= 3 and w_[1] in ARRAY_RULES and key in pending:
            out_patch.append(pending.pop(key))
    patch = out_patch + list(pending.values())
    # isar definitions may come in any order: the constants are written in reverse half of the time (not when the
    # rendering is cut into two files: an included file must be complete in itself)
    cidx = [i for i, b in enumerate(body) if b.lstrip().startswith('<constant')]
    if split is None and len(cidx) > 1 and rng.random() < 0.5:
        forms.add('constants-reversed')
        vals = [body[i] for i in cidx][::-1]
        for i, v in zip(cidx, vals):
            body[i] = v
    if rng.random() < 0.5 and len(set(x.split()[0] for x in patch)) > 1:
        # a patch file need not keep one message's rules together: interleave the groups, keeping each group's order
        forms.add('patch-rules-interleaved')
        groups = {}
        for line in patch:
            groups.setdefault(line.split()[0], []).append(line)
        patch = []
        keys = list(groups)
        while keys:
            k = rng.choice(keys)
            patch.append(groups[k].pop(0))
            if not groups[k]:
                keys.remove(k)
    if split is not None and len(body) >= 2:
        # the first k definitions go to inc.xml, which the main file pulls in through xi:include
        k = rng.randint(1, len(body) - 1)
        forms.add('xi-include')
        split['inc.xml'] = '<?xml version="1.0" encoding="utf-8"?>\n<x>\n%s\n</x>\n' % '\n'.join(body[:k])
        xml = ('<?xml version="1.0" encoding="utf-8"?>\n<x xmlns:xi="http://www.w3.org/2001/XInclude">\n'
               '<xi:include href="inc.xml"/>\n%s\n</x>\n' % '\n'.join(body[k:]))
    else:
        xml = '<?xml version="1.0" encoding="utf-8"?>\n<x>\n%s\n</x>\n' % '\n'.join(body)
    return xml, ('\n'.join(patch) + '\n') if patch else None, forms
