"""Worker entry point: python -m pvf.shard <CHECK> <spec.json> <out.json>."""
import importlib
import json
import sys


def main():
    check, spec_path, out_path = sys.argv[1:4]
    with open(spec_path) as f:
        spec = json.load(f)
    mod = importlib.import_module('pvf.checks.' + check.lower())
    part = mod.run_shard(spec)
    with open(out_path, 'w') as f:
        json.dump(part, f, default=repr)


if __name__ == '__main__':
    main()
