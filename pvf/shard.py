"""Worker entry point: python -m pvf.shard <CHECK> <spec.json> <out.json> [depth]."""
import importlib
import json
import os
import subprocess
import sys
import tempfile


def split(spec):
    """Two halves of a C++ schema-file spec, or None."""
    for key in ('seqs', 'seeds'):
        if isinstance(spec.get(key), list) and len(spec[key]) > 1:
            n = len(spec[key]) // 2
            return [dict(spec, **{key: spec[key][:n]}), dict(spec, **{key: spec[key][n:]})]
    return None


def run(check, mod, spec, depth=0):
    """One generated type that does not build must not hide the others of its schema file: when the file's
    prerequisite (prophyc / C++ compile) fails, the file is halved and both halves are run again - each in a fresh
    worker process, generated Python modules of the same name must not meet - down to 5 levels. What still fails at
    the leaves stays a prerequisite failure (the run ends inconclusive unless something that did build shows a
    violation)."""
    part = mod.run_shard(spec)
    failed = [q for q in part.get('prereq', []) if isinstance(q, dict) and q.get('stage') in ('compile', 'prophyc')]
    if not (failed and spec.get('cpp') and depth < 5):
        return part
    halves = split(spec)
    if not halves:
        return part
    from . import harness
    parts = []
    tmp = tempfile.mkdtemp(prefix='pvf_half_')
    try:
        for i, h in enumerate(halves):
            sp, out = os.path.join(tmp, 'spec%d.json' % i), os.path.join(tmp, 'out%d.json' % i)
            with open(sp, 'w') as f:
                json.dump(h, f)
            p = subprocess.run([sys.executable, '-m', 'pvf.shard', check, sp, out, str(depth + 1)],
                               stdout=subprocess.PIPE, stderr=subprocess.PIPE)
            if p.returncode != 0 or not os.path.exists(out):
                bad = harness.new_partial()
                bad['inconclusive'] = 'worker for one half of a schema file died: %s' % p.stderr.decode('utf-8', 'replace')[-300:]
                parts.append(bad)
                continue
            with open(out) as f:
                parts.append(json.load(f))
    finally:
        import shutil
        shutil.rmtree(tmp, ignore_errors=True)
    merged = harness.merge(parts)
    merged['counters']['schema_files_halved_after_build_failure'] = \
        merged['counters'].get('schema_files_halved_after_build_failure', 0) + 1
    return merged


def main():
    check, spec_path, out_path = sys.argv[1:4]
    depth = int(sys.argv[4]) if len(sys.argv) > 4 else 0
    with open(spec_path) as f:
        spec = json.load(f)
    mod = importlib.import_module('pvf.checks.' + check.lower())
    part = run(check, mod, spec, depth)
    with open(out_path, 'w') as f:
        json.dump(part, f, default=repr)


if __name__ == '__main__':
    main()
