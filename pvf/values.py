"""Value generation for schema types (DESIGN 2.3)."""
import struct as _struct

from .schema import (INTS, FLOATS, PLAIN, OPTIONAL, FIXED, DYNAMIC, LIMITED, GREEDY, EXT)

# non-palindromic patterns per width so that a missed byte reversal is visible
PATTERN = {1: 0x5a, 2: 0x1234, 4: 0x12345678, 8: 0x0123456789abcdef}


def int_candidates(t):
    w, signed = INTS[t]
    bits = 8 * w
    if signed:
        lo, hi = -(1 << (bits - 1)), (1 << (bits - 1)) - 1
        pats = [0, 1, -1, lo, hi, PATTERN[w] & hi, -(PATTERN[w] & hi), 0x7f, -0x80]
    else:
        lo, hi = 0, (1 << bits) - 1
        pats = [0, 1, hi, hi - 1, PATTERN[w], 1 << (bits - 1), 0x7f, 0x80, (1 << (bits - 1)) - 1]
    return [p for p in pats if lo <= p <= hi]


R32 = [0.0, 1.5, -2.25, 42.0, 1.0e10, -3.0e-5, 3.4028234663852886e+38, 1.17549435e-38, float("inf"), -0.0]
R32 = [_struct.unpack('<f', _struct.pack('<f', x))[0] for x in R32]
R64 = [0.0, 1.5, -2.25, 42.0, 1.0e100, -3.0e-50, 1.7976931348623157e308, 2.2250738585072014e-308, 0.1, -0.0]

BYTES_ALPHABET = [0x00, 0x09, 0x0a, 0x0d, 0x5c, 0x22, 0x20, 0x41, 0x7e, 0x7f, 0x80, 0xff, 0x61, 0x30]


def scalar_value(t, rng, mode):
    if t in INTS:
        c = int_candidates(t)
        if mode == 'default':
            return 0
        if mode == 'max':
            return max(c)
        if mode == 'odd':
            w, signed = INTS[t]
            return PATTERN[w] & ((1 << (8 * w - 1)) - 1) if signed else PATTERN[w]
        if rng.random() < 0.6:
            return rng.choice(c)
        w, signed = INTS[t]
        bits = 8 * w
        return rng.randint(-(1 << (bits - 1)), (1 << (bits - 1)) - 1) if signed else rng.randint(0, (1 << bits) - 1)
    c = R32 if t == 'r32' else R64
    if mode == 'default':
        return 0.0
    if mode == 'max':
        return c[6]
    if mode == 'odd':
        return c[2]
    return rng.choice(c)


class Gen(object):
    def __init__(self, schema, rng, allow_float=True, bytes_alphabet=None, max_dyn=4):
        self.s = schema
        self.rng = rng
        self.allow_float = allow_float
        self.alpha = bytes_alphabet or BYTES_ALPHABET
        self.max_dyn = max_dyn

    def type_value(self, tname, mode):
        r = self.s.resolve(tname)
        rng = self.rng
        if isinstance(r, str):
            return scalar_value(r, rng, mode)
        if r.kind == 'enum':
            vals = [m[1] for m in r.members]
            if mode == 'default':
                return vals[0]
            if mode == 'max':
                return vals[-1]
            return rng.choice(vals)
        if r.kind == 'union':
            if mode == 'default':
                arm = r.arms[0]
            elif mode == 'max':
                arm = r.arms[-1]
            else:
                arm = rng.choice(r.arms)
            return (arm[2], self.type_value(arm[1], mode))
        return self.struct_value(r, mode)

    def bytes_value(self, n, mode):
        rng = self.rng
        if mode == 'default':
            return b'\x00' * n
        return bytes(bytearray(rng.choice(self.alpha) for _ in range(n)))

    def length(self, m, mode, hi=None):
        rng = self.rng
        if m.kind == FIXED:
            return m.size
        if mode == 'default':
            return 0
        if m.kind == LIMITED:
            if mode == 'max':
                return m.size
            if mode == 'odd':
                return min(m.size, 1)
            return rng.choice([0, 1, max(0, m.size - 1), m.size])
        top = self.max_dyn if hi is None else min(hi, self.max_dyn)
        if mode == 'max':
            return min(top, 3)
        if mode == 'odd':
            return min(top, rng.choice([1, 3]))
        return rng.randint(0, top)

    def struct_value(self, st, mode):
        rng = self.rng
        v = {}
        sizers = {}
        for m in st.members:
            if m.kind == EXT:
                sizers.setdefault(m.sizer, []).append(m)
        ext_len = {}
        for sname, arrs in sizers.items():
            sm = [x for x in st.members if x.name == sname][0]
            it = self.s.resolve(sm.type)
            w, signed = INTS[it]
            hi = (1 << (8 * w - (1 if signed else 0))) - 1
            n = self.length(arrs[0], mode, hi)
            for a in arrs:
                ext_len[a.name] = n
        for m in st.members:
            if m.name in sizers:
                continue
            if m.kind == PLAIN:
                v[m.name] = self.type_value(m.type, mode)
            elif m.kind == OPTIONAL:
                if mode == 'default' or (mode == 'rand' and rng.random() < 0.4):
                    v[m.name] = None
                else:
                    v[m.name] = self.type_value(m.type, mode)
            else:
                n = ext_len[m.name] if m.kind == EXT else self.length(m, mode)
                if m.type == 'byte':
                    if m.kind == FIXED:
                        v[m.name] = self.bytes_value(m.size, mode)
                    else:
                        v[m.name] = self.bytes_value(n, 'rand')
                else:
                    emode = mode if mode != 'default' or m.kind == FIXED else 'rand'
                    v[m.name] = [self.type_value(m.type, emode) for _ in range(n)]
        return v


def greedy_path(schema, tname):
    """Path (list of member names) to the greedy array of an unlimited struct, or None."""
    r = schema.resolve(tname)
    if isinstance(r, str) or r.kind != 'struct' or not r.members:
        return None
    last = r.members[-1]
    if last.kind == GREEDY:
        return [last.name], last
    if last.kind == PLAIN:
        sub = greedy_path(schema, last.type)
        if sub:
            return [last.name] + sub[0], sub[1]
    return None


def align_greedy(schema, wire, tname, value, gen):
    """Adjust the greedy tail length so the data ends on the top-level alignment boundary.
    Returns the adjusted value or None when no length up to +8 elements achieves it."""
    gp = greedy_path(schema, tname)
    if not gp:
        return value
    path, m = gp
    holder = value
    for p in path[:-1]:
        holder = holder[p]
    base = holder[path[-1]]
    for extra in range(0, 9):
        if m.type == 'byte':
            cand = base + gen.bytes_value(extra, 'rand')
        else:
            cand = list(base) + [gen.type_value(m.type, 'rand') for _ in range(extra)]
        holder[path[-1]] = cand
        if greedy_aligned(wire, tname, value):
            return value
    for n in range(0, 9):
        cand = base[:n]
        holder[path[-1]] = cand
        if greedy_aligned(wire, tname, value):
            return value
    return None


def greedy_aligned(wire, tname, value):
    data, spans = wire.encode(tname, value, '<')
    # aligned iff no padding follows the last non-pad span... but an empty greedy array after padded
    # fixed fields would be misjudged, so ask the layout directly: end of greedy data == len(data)
    return wire.last_greedy_end == len(data)


def value_set(schema, wire, tname, rng, nrand=2, aligned_greedy=True, allow_float=True, bytes_alphabet=None):
    """default, max, odd and nrand random values of a type (aligned greedy tails if requested)."""
    gen = Gen(schema, rng, allow_float, bytes_alphabet)
    out = []
    for mode in ['default', 'max', 'odd'] + ['rand'] * nrand:
        v = gen.type_value(tname, mode)
        if aligned_greedy:
            v = align_greedy(schema, wire, tname, v, gen)
            if v is None:
                continue
        out.append((mode, v))
    return out
