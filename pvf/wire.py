"""Reference wire model, written from docs/encoding.rst only (DESIGN 2.2).

Rules (W1..W12) are referenced in comments.  Nothing here imports prophy or
prophyc.  Values: ints/floats for scalars, int for enums, dict for structs
(sizer fields of externally sized arrays are derived and omitted), (arm_name,
value) for unions, None/value for optionals, list for arrays, bytes for bytes.
"""
import struct as _struct

from .schema import (INTS, FLOATS, PLAIN, OPTIONAL, FIXED, DYNAMIC, LIMITED, GREEDY, EXT,
                     FIXED_S, DYNAMIC_S, UNLIMITED_S)

FMT = {'u8': 'B', 'u16': 'H', 'u32': 'I', 'u64': 'Q', 'i8': 'b', 'i16': 'h', 'i32': 'i', 'i64': 'q',
       'r32': 'f', 'r64': 'd'}


class Reject(Exception):
    pass


class Field(object):
    """One wire field of a struct (members expanded with their synthetic counters)."""
    __slots__ = ('role', 'member', 'name', 'align', 'size', 'stiff', 'bound', 'itype')

    def __init__(self, role, member, name, align, size, stiff, bound=None, itype=None):
        self.role = role          # 'counter' (synthetic u32), 'sizer' (declared int field), 'member'
        self.member = member      # schema.Member (for counter: the array member it counts)
        self.name = name
        self.align = align
        self.size = size          # None when not fixed
        self.stiff = stiff
        self.bound = bound        # for counter/sizer: list of array member names
        self.itype = itype        # for counter/sizer: int type name


class Layout(object):
    __slots__ = ('size', 'align', 'stiff', 'blocks', 'block_align', 'offsets')


def roundup(n, a):
    return (n + a - 1) // a * a


class Wire(object):
    def __init__(self, schema, dev=()):
        self.s = schema
        self.dev = frozenset(dev)
        self._t = {}
        self._l = {}

    # ------------------------------------------------------------------ layout
    def tinfo(self, tname):
        """(size or None, alignment, stiffness) of a type name."""
        if tname in self._t:
            return self._t[tname]
        r = self.s.resolve(tname)
        if isinstance(r, str):
            if r == 'byte':
                res = (1, 1, FIXED_S)
            elif r in INTS:
                res = (INTS[r][0],) * 2 + (FIXED_S,)                       # W1
            else:
                res = (FLOATS[r],) * 2 + (FIXED_S,)
        elif r.kind == 'enum':
            res = (4, 4, FIXED_S)                                          # W1: enum = u32
        elif r.kind == 'union':                                            # W10
            a = max([4] + [self.tinfo(t)[1] for _, t, _, _ in r.arms])
            sz = max(self.tinfo(t)[0] for _, t, _, _ in r.arms)
            res = (roundup(a + sz, a), a, FIXED_S)
        else:
            L = self.layout(r.name)
            res = (L.size, L.align, L.stiff)
        self._t[tname] = res
        return res

    def minfo(self, m):
        """(size or None, alignment, stiffness) of a struct member (without synthetic counter)."""
        es, ea, ek = self.tinfo(m.type)
        if m.kind == PLAIN:
            return es, ea, ek
        if m.kind == OPTIONAL:                                             # W8
            a = max(4, ea)
            return a + es, a, FIXED_S
        if m.kind in (FIXED, LIMITED):                                     # W2, W4
            return es * m.size, ea, FIXED_S
        if m.kind in (DYNAMIC, EXT):                                       # W3, W6
            return None, ea, DYNAMIC_S
        if m.kind == GREEDY:                                               # W5
            return None, ea, UNLIMITED_S
        raise AssertionError(m.kind)

    def fields(self, st):
        sizers = {}
        for m in st.members:
            if m.kind == EXT:
                sizers.setdefault(m.sizer, []).append(m.name)
        out = []
        for m in st.members:
            if m.kind in (DYNAMIC, LIMITED):
                out.append(Field('counter', m, 'num_of_' + m.name, 4, 4, FIXED_S, [m.name], 'u32'))
            sz, al, sk = self.minfo(m)
            if m.name in sizers:
                out.append(Field('sizer', m, m.name, al, sz, sk, sizers[m.name], self.s.resolve(m.type)))
            else:
                out.append(Field('member', m, m.name, al, sz, sk))
        return out

    def layout(self, sname):
        if sname in self._l:
            return self._l[sname]
        st = self.s.by_name[sname]
        fs = self.fields(st)
        L = Layout()
        L.align = max([1] + [f.align for f in fs])                         # W9
        ks = [f.stiff for f in fs]
        if ks and ks[-1] == UNLIMITED_S:
            L.stiff = UNLIMITED_S
        elif DYNAMIC_S in ks:
            L.stiff = DYNAMIC_S
        else:
            L.stiff = FIXED_S
        blocks = [[]]
        for f in fs:                                                       # W11
            blocks[-1].append(f)
            if f.stiff == DYNAMIC_S:
                blocks.append([])
        if not blocks[-1] and len(blocks) > 1:
            blocks.pop()
        L.blocks = blocks
        L.block_align = [max([1] + [f.align for f in b]) for b in blocks]
        L.offsets = []
        for b in blocks:
            off = 0
            offs = []
            for f in b:
                off = roundup(off, f.align)
                offs.append(off)
                if f.size is not None:
                    off += f.size
            L.offsets.append(offs)
        if L.stiff == FIXED_S:
            end = L.offsets[0][-1] + blocks[0][-1].size if fs else 0
            L.size = roundup(end, L.align)
        else:
            L.size = None
        self._l[sname] = L
        return L

    # ------------------------------------------------------------------ encode
    def encode(self, tname, value, endian):
        """-> (bytes, spans). spans: list of (offset, width, kind, path);
        kind in scalar/counter/sizer/flag/disc/enum/bytes/pad."""
        out = _Out(endian)
        out.top_path = tname
        self._enc_type(tname, value, out, tname)
        self.last_greedy_end = out.greedy_end
        self.last_top_offsets = out.top_offsets
        return bytes(out.b), out.spans

    def _enc_type(self, tname, value, out, path):
        r = self.s.resolve(tname)
        if isinstance(r, str):
            out.scalar(r, value, 'scalar', path)
        elif r.kind == 'enum':
            out.scalar('u32', value, 'enum', path)
        elif r.kind == 'union':
            self._enc_union(r, value, out, path)
        else:
            self._enc_struct(r, value, out, path)

    def _enc_union(self, u, value, out, path):
        size, a, _ = self.tinfo(u.name)
        start = len(out.b)
        arm_name, arm_value = value
        arm = [x for x in u.arms if x[2] == arm_name][0]
        out.scalar('u32', arm[0], 'disc', path + '.discriminator')
        out.pad_to_abs(start + a)
        self._enc_type(arm[1], arm_value, out, path + '.' + arm_name)
        out.pad_to_abs(start + size)

    def _enc_struct(self, st, value, out, path):
        L = self.layout(st.name)
        for bi, block in enumerate(L.blocks):
            if bi:
                out.align(L.block_align[bi])                               # W11
            for f in block:
                out.align(f.align)                                         # W9
                if path == out.top_path:
                    out.top_offsets[f.name] = len(out.b)
                self._enc_field(st, f, value, out, path + '.' + f.name)
        out.align(L.align)                                                 # W9 end padding

    def _enc_field(self, st, f, value, out, path):
        m = f.member
        if f.role == 'counter':
            out.scalar('u32', len(value[m.name]), 'counter', path)
            return
        if f.role == 'sizer':
            ns = set(len(value[b]) for b in f.bound)
            assert len(ns) == 1, "arrays sharing a sizer must have equal lengths"
            out.scalar(f.itype, ns.pop(), 'sizer', path)
            return
        v = value[m.name]
        if m.kind == GREEDY:
            self._enc_greedy(m, v, out, path)
        elif m.kind == PLAIN:
            self._enc_type(m.type, v, out, path)
        elif m.kind == OPTIONAL:                                           # W8
            es, ea, _ = self.tinfo(m.type)
            a = max(4, ea)
            start = len(out.b)
            if v is None:
                out.zeros(a + es)
            else:
                out.scalar('u32', 1, 'flag', path + '?')
                out.pad_to_abs(start + a)
                self._enc_type(m.type, v, out, path)
        elif m.type == 'byte':
            if m.kind in (FIXED, LIMITED):
                assert len(v) <= m.size
                out.raw(v, path)
                out.zeros(m.size - len(v))
            else:
                out.raw(v, path)
        else:
            es = self.tinfo(m.type)[0]
            start = len(out.b)
            for i, e in enumerate(v):
                self._enc_type(m.type, e, out, "%s[%d]" % (path, i))
            if m.kind == FIXED:
                assert len(v) == m.size
            if m.kind == LIMITED:
                assert len(v) <= m.size
                out.pad_to_abs(start + es * m.size)

    def _enc_greedy(self, m, v, out, path):                                # W5
        if m.type == 'byte':
            out.raw(v, path)
        else:
            for i, e in enumerate(v):
                self._enc_type(m.type, e, out, "%s[%d]" % (path, i))
        out.greedy_end = len(out.b)

    # ------------------------------------------------------------------ decode
    def decode(self, tname, data, endian, dialect='python'):
        """Reference decoder: value, or raises Reject. Padding content is ignored."""
        cur = _Cur(data, endian, dialect)
        v = self._dec_type(tname, cur, top=True)
        if cur.pos != len(data):
            raise Reject("trailing bytes: consumed %d of %d" % (cur.pos, len(data)))
        return v

    def _dec_type(self, tname, cur, top=False):
        r = self.s.resolve(tname)
        if isinstance(r, str):
            return cur.scalar(r)
        if r.kind == 'enum':
            v = cur.scalar('u32')
            if cur.dialect == 'python' and v not in [x[1] for x in r.members]:
                raise Reject("unknown enumerator %d" % v)
            return v
        if r.kind == 'union':
            size, a, _ = self.tinfo(r.name)
            start = cur.pos
            cur.need(size)
            d = cur.scalar('u32')
            arms = [x for x in r.arms if x[0] == d]
            if not arms:
                raise Reject("unknown discriminator %d" % d)
            cur.pos = start + a
            v = self._dec_type(arms[0][1], cur)
            cur.pos = start + size
            return (arms[0][2], v)
        return self._dec_struct(r, cur, top)

    def _dec_struct(self, st, cur, top):
        L = self.layout(st.name)
        value = {}
        counts = {}
        for bi, block in enumerate(L.blocks):
            if bi:
                cur.align(L.block_align[bi])
            for f in block:
                cur.align(f.align)
                m = f.member
                if f.role in ('counter', 'sizer'):
                    n = cur.scalar(f.itype)
                    if n < 0:
                        raise Reject("negative count")
                    if cur.dialect == 'python' and n > 65536:
                        raise Reject("count over guard")
                    if f.role == 'counter' and m.kind == LIMITED and n > m.size:
                        raise Reject("count over limit")
                    for b in f.bound:
                        counts[b] = n
                    continue
                if m.kind == PLAIN:
                    value[m.name] = self._dec_type(m.type, cur)
                elif m.kind == OPTIONAL:
                    es, ea, _ = self.tinfo(m.type)
                    a = max(4, ea)
                    start = cur.pos
                    cur.need(a + es)
                    flag = cur.scalar('u32')
                    cur.pos = start + a
                    if flag:
                        value[m.name] = self._dec_type(m.type, cur)
                    else:
                        value[m.name] = None
                    cur.pos = start + a + es
                else:
                    value[m.name] = self._dec_array(st, L, m, counts, cur)
        cur.align(L.align)
        return value

    def _dec_array(self, st, L, m, counts, cur):
        es, ea, ek = self.tinfo(m.type)
        isb = m.type == 'byte'
        if m.kind == FIXED:
            n = m.size
        elif m.kind in (DYNAMIC, LIMITED, EXT):
            n = counts[m.name]
        else:
            n = None
        start = cur.pos
        if m.kind in (FIXED, LIMITED):
            cur.need(es * m.size)
        if n is None:  # greedy
            if es is not None:
                rem = len(cur.data) - cur.pos
                n = rem // es
                left = rem - n * es
                # leftover bytes must be exactly the end padding of the struct
                endpos = cur.pos + n * es
                if roundup(endpos, L.align) - endpos != left:
                    raise Reject("greedy tail does not end on a boundary")
            else:
                # elements until no further complete element fits; what is left must be the end padding
                # (trailing padding cannot be told from elements - the documented greedy ambiguity)
                vals = []
                while cur.pos < len(cur.data):
                    save = cur.pos
                    try:
                        vals.append(self._dec_type(m.type, cur))
                    except Reject:
                        cur.pos = save
                        break
                return vals
        if isb:
            cur.need(n)
            v = bytes(cur.data[cur.pos:cur.pos + n])
            cur.pos += n
        else:
            if es is not None:
                cur.need(n * es)
            v = [self._dec_type(m.type, cur) for _ in range(n)]
        if m.kind == LIMITED:
            cur.pos = start + es * m.size
        return v

    # ------------------------------------------------------------------ domain
    def domain_errors(self, tname, v, path=''):
        """Problems that put a value outside the schema's value space (limits, ranges, enumerators, arms)."""
        r = self.s.resolve(tname)
        out = []
        if isinstance(r, str):
            if r in INTS:
                w, signed = INTS[r]
                lo, hi = (-(1 << (8 * w - 1)), (1 << (8 * w - 1)) - 1) if signed else (0, (1 << (8 * w)) - 1)
                if not isinstance(v, int) or not lo <= v <= hi:
                    out.append('%s: %r out of %s range' % (path, v, r))
            return out
        if r.kind == 'enum':
            if v not in [x[1] for x in r.members]:
                out.append('%s: %r is not an enumerator of %s' % (path, v, r.name))
            return out
        if r.kind == 'union':
            arms = [a for a in r.arms if a[2] == v[0]]
            if not arms:
                return ['%s: unknown arm %r' % (path, v[0])]
            return self.domain_errors(arms[0][1], v[1], path + '.' + v[0])
        for m in r.members:
            if m.name not in v:
                continue
            x = v[m.name]
            p = path + '.' + m.name
            if m.kind == PLAIN:
                out += self.domain_errors(m.type, x, p)
            elif m.kind == OPTIONAL:
                if x is not None:
                    out += self.domain_errors(m.type, x, p)
            else:
                if m.kind == FIXED and len(x) != m.size:
                    out.append('%s: fixed array length %d != %d' % (p, len(x), m.size))
                if m.kind == LIMITED and len(x) > m.size:
                    out.append('%s: %d elements over limit %d' % (p, len(x), m.size))
                if m.type != 'byte':
                    for i, e in enumerate(x):
                        out += self.domain_errors(m.type, e, '%s[%d]' % (p, i))
        return out

    # ------------------------------------------------------------------ render
    def render(self, tname, value):
        """Text of C18 for a struct/union value."""
        r = self.s.resolve(tname)
        if r.kind == 'union':
            arm = [x for x in r.arms if x[2] == value[0]][0]
            return self._render_field(arm[2], arm[1], value[1])
        out = []
        for m in r.members:
            if m.name not in value:
                continue  # sizer
            v = value[m.name]
            if m.kind == OPTIONAL:
                if v is None:
                    continue
                out.append(self._render_field(m.name, m.type, v))
            elif m.kind == PLAIN:
                out.append(self._render_field(m.name, m.type, v))
            elif m.type == 'byte':
                out.append("%s: %s\n" % (m.name, render_bytes(v)))
            else:
                for e in v:
                    out.append(self._render_field(m.name, m.type, e))
        return "".join(out)

    def _render_field(self, name, tname, v):
        r = self.s.resolve(tname)
        if isinstance(r, str):
            return "%s: %s\n" % (name, v)
        if r.kind == 'enum':
            return "%s: %s\n" % (name, [x[0] for x in r.members if x[1] == v][-1])
        inner = self.render(r.name, v)
        ind = "\n".join(("  " + x) if x else '' for x in inner.split("\n"))
        return "%s {\n%s}\n" % (name, ind)


def render_bytes(b):
    out = ["'"]
    for x in bytearray(b):
        if x == 9:
            out.append("\\t")
        elif x == 10:
            out.append("\\n")
        elif x == 13:
            out.append("\\r")
        elif x == 92:
            out.append("\\\\")
        elif 32 <= x <= 126:
            out.append(chr(x))
        else:
            out.append("\\x%02x" % x)
    out.append("'")
    return "".join(out)


class _Out(object):
    def __init__(self, endian):
        self.b = bytearray()
        self.spans = []
        self.e = endian
        self.greedy_end = None
        self.top_path = None
        self.top_offsets = {}

    def align(self, a):
        n = (-len(self.b)) % a
        if n:
            self.zeros(n)

    def pad_to_abs(self, pos):
        n = pos - len(self.b)
        assert n >= 0, "slot overflow"
        if n:
            self.zeros(n)

    def zeros(self, n):
        if n:
            self.spans.append((len(self.b), n, 'pad', ''))
            self.b += b'\x00' * n

    def scalar(self, t, v, kind, path):
        w = INTS[t][0] if t in INTS else FLOATS[t]
        assert len(self.b) % w == 0, "reference produced a misaligned scalar at %s" % path
        self.spans.append((len(self.b), w, kind, path))
        self.b += _struct.pack(self.e + FMT[t], v)                          # W1

    def raw(self, v, path):
        if len(v):
            self.spans.append((len(self.b), len(v), 'bytes', path))
            self.b += v


class _Cur(object):
    def __init__(self, data, endian, dialect):
        self.data = data
        self.pos = 0
        self.e = endian
        self.dialect = dialect

    def need(self, n):
        if len(self.data) - self.pos < n:
            raise Reject("short: need %d at %d of %d" % (n, self.pos, len(self.data)))

    def align(self, a):
        n = (-self.pos) % a
        if n:
            self.need(n)
            self.pos += n

    def scalar(self, t):
        w = INTS[t][0] if t in INTS else FLOATS[t]
        self.need(w)
        v, = _struct.unpack(self.e + FMT[t], bytes(self.data[self.pos:self.pos + w]))
        self.pos += w
        return v


# ---------------------------------------------------------------------------
# Self-check against the worked examples of docs/encoding.rst
# ---------------------------------------------------------------------------

def _hx(s):
    return bytes(bytearray(int(x, 16) for x in s.replace('[', ' ').replace(']', ' ').split()))


def doc_vectors():
    """(schema, type, value, endian, expected bytes) transcribed from docs/encoding.rst."""
    from .schema import Schema, Struct, Union, Member, Enum
    V = []

    def one(members, value, le, be=None, extra=()):
        s = Schema(list(extra) + [Struct('X', members)])
        V.append((s, 'X', value, '<', _hx(le)))
        if be is not None:
            V.append((s, 'X', value, '>', _hx(be)))

    # numeric table
    for t, le, be in [('u8', '2a', '2a'), ('i8', '2a', '2a'), ('u16', '2a 00', '00 2a'), ('i16', '2a 00', '00 2a'),
                      ('u32', '2a 00 00 00', '00 00 00 2a'), ('i32', '2a 00 00 00', '00 00 00 2a'),
                      ('u64', '2a 00 00 00 00 00 00 00', '00 00 00 00 00 00 00 2a'),
                      ('i64', '2a 00 00 00 00 00 00 00', '00 00 00 00 00 00 00 2a'),
                      ('r32', '00 00 28 42', '42 28 00 00'),
                      ('r64', '00 00 00 00 00 00 45 40', '40 45 00 00 00 00 00 00')]:
        one([Member('x', t)], {'x': 42}, le, be)
    one([Member('x', 'E')], {'x': 42}, '2a 00 00 00', '00 00 00 2a', extra=[Enum('E', [('E_42', 42)])])
    one([Member('x', 'u16', FIXED, 4)], {'x': [1, 2, 3, 4]}, '01 00 02 00 03 00 04 00')
    one([Member('x', 'u16', DYNAMIC)], {'x': [1, 2]}, '02 00 00 00 01 00 02 00')
    one([Member('x', 'u16', LIMITED, 4)], {'x': [1, 2]}, '02 00 00 00 01 00 02 00 00 00 00 00')
    one([Member('x', 'u16', GREEDY)], {'x': [1, 2]}, '01 00 02 00')
    one([Member('size', 'u8'), Member('x', 'u8', EXT, sizer='size'), Member('y', 'u16', EXT, sizer='size')],
        {'x': [4, 5], 'y': [6, 7]}, '02 04 05 00 06 00 07 00')  # doc drops the final 00 of y[1] (typo: 7 bytes)
    one([Member('x', 'u32', OPTIONAL)], {'x': 1}, '01 00 00 00 01 00 00 00')
    one([Member('x', 'u32', OPTIONAL)], {'x': None}, '00 00 00 00 00 00 00 00')
    nested = Struct('Nested', [Member('n1', 'u16'), Member('n2', 'u16')])
    one([Member('x', 'Nested'), Member('y', 'u32')], {'x': {'n1': 1, 'n2': 2}, 'y': 3},
        '01 00 02 00 03 00 00 00', extra=[nested])
    two = Struct('TwoInts', [Member('a1', 'u16'), Member('a2', 'u16')])
    su = Schema([two, Union('X', [(0, 'u32', 'x'), (1, 'TwoInts', 'y')])])
    V.append((su, 'X', ('x', 1), '<', _hx('00 00 00 00 01 00 00 00')))
    V.append((su, 'X', ('y', {'a1': 2, 'a2': 3}), '<', _hx('01 00 00 00 02 00 03 00')))
    one([Member('a', 'u8'), Member('b', 'u16')], {'a': 1, 'b': 2}, '01 [00] 02 00')
    n3 = Struct('Nested', [Member('n1', 'u16'), Member('n2', 'u32'), Member('n3', 'u16')])
    one([Member('x', 'u64'), Member('y', 'u32'), Member('z', 'u8'), Member('n', 'Nested')],
        {'x': 1, 'y': 2, 'z': 3, 'n': {'n1': 4, 'n2': 5, 'n3': 6}},
        '01 00 00 00 00 00 00 00 02 00 00 00 03 00 00 00 04 00 00 00 05 00 00 00 06 00 00 00 00 00 00 00',
        extra=[n3])
    one([Member('x', 'u8', DYNAMIC), Member('y', 'u8', DYNAMIC)], {'x': [1], 'y': [2, 3, 4]},
        '01 00 00 00 01 [00 00 00] 03 00 00 00 02 03 04 [00]')
    one([Member('x', 'u8', DYNAMIC), Member('y', 'u8', DYNAMIC)], {'x': [], 'y': [1, 2, 3, 4]},
        '00 00 00 00 04 00 00 00 01 02 03 04')
    one([Member('x', 'u64', DYNAMIC)], {'x': [1]}, '01 00 00 00 [00 00 00 00] 01 00 00 00 00 00 00 00')
    one([Member('x', 'u64', DYNAMIC)], {'x': []}, '00 00 00 00 [00 00 00 00]')
    one([Member('x', 'u8', OPTIONAL), Member('y', 'u8')], {'x': 1, 'y': 2}, '01 00 00 00 01 02 [00 00]')
    one([Member('x', 'u64', OPTIONAL)], {'x': 1}, '01 00 00 00 [00 00 00 00] 01 00 00 00 00 00 00 00')
    V.append((Schema([Union('X', [(1, 'u8', 'x')])]), 'X', ('x', 2), '<', _hx('01 00 00 00 02 [00 00 00]')))
    u2 = Schema([Union('X', [(1, 'u64', 'x'), (2, 'u8', 'y')])])
    V.append((u2, 'X', ('x', 2), '<', _hx('01 00 00 00 [00 00 00 00] 02 00 00 00 00 00 00 00')))
    V.append((u2, 'X', ('y', 3), '<', _hx('02 00 00 00 [00 00 00 00] 03 [00 00 00 00 00 00 00]')))
    one([Member('a', 'u8', DYNAMIC), Member('b', 'u8'), Member('c', 'u32'), Member('d', 'u8', DYNAMIC),
         Member('e', 'u8'), Member('f', 'u64')],
        {'a': [1], 'b': 2, 'c': 3, 'd': [4], 'e': 5, 'f': 6},
        '01 00 00 00 01 [00 00 00] 02 [00 00 00] 03 00 00 00 01 00 00 00 04 [00 00 00] '
        '05 [00 00 00 00 00 00 00] 06 00 00 00 00 00 00 00')
    return V


def self_check():
    """Return list of failures of the reference model against the doc vectors."""
    bad = []
    n = 0
    for s, t, v, e, exp in doc_vectors():
        w = Wire(s)
        got, spans = w.encode(t, v, e)
        n += 1
        if got != exp:
            bad.append(("encode", s.to_prophy(), v, e, got.hex(), exp.hex()))
            continue
        cov = sum(x[1] for x in spans)
        if cov != len(got):
            bad.append(("spans", s.to_prophy(), v, e, cov, len(got)))
        try:
            back = w.decode(t, got, e)
        except Reject as ex:
            bad.append(("decode", s.to_prophy(), v, e, str(ex)))
            continue
        if back != _norm(v):
            bad.append(("roundtrip", s.to_prophy(), v, e, repr(back)))
    return n, bad


def _norm(v):
    if isinstance(v, dict):
        return {k: _norm(x) for k, x in v.items()}
    if isinstance(v, tuple):
        return (v[0], _norm(v[1]))
    if isinstance(v, list):
        return [_norm(x) for x in v]
    if isinstance(v, float):
        return v
    return v
