#!/bin/sh
# usage: tools_mutant.sh <name> <patch.diff> <demo script or -> <CHECK-ID>...
# Applies a seeded change to a scratch worktree of /repo (never to /repo itself), confirms the pinned
# suite still passes, runs the demonstration, then runs the given quick checks with PVF_REPO pointing at it.
# Evidence and replays of these runs go to /tmp/mutant_runs/<name>/ - never into /verif/evidence.
set -u
NAME="$1"; PATCH="$2"; DEMO="$3"; shift 3
WT=/tmp/mw/$NAME
OUT=/tmp/mutant_runs/$NAME
rm -rf "$OUT"; mkdir -p "$OUT" /tmp/mw
git -C /repo worktree remove --force "$WT" >/dev/null 2>&1
git -C /repo worktree add -q --detach "$WT" HEAD || exit 3
if ! git -C "$WT" apply "$PATCH"; then echo "RESULT $NAME patch-does-not-apply"; git -C /repo worktree remove --force "$WT"; exit 3; fi
( cd "$WT" && /venv/bin/python -m pytest -q -p no:cacheprovider -x 2>&1 | tail -1 ) > "$OUT/pytest.txt"
echo "pytest: $(cat $OUT/pytest.txt)"
if [ "$DEMO" != "-" ]; then
  case "$DEMO" in
    *.py) ( cd "$WT" && PROPHY_ROOT="$WT" PYTHONPATH="$WT" timeout 600 /venv/bin/python "$DEMO" > "$OUT/demo.txt" 2>&1 ); echo "demo(with change) exit=$?" ;;
    *)    ( cd "$WT" && PROPHY_ROOT="$WT" PYTHONPATH="$WT" timeout 600 sh "$DEMO" > "$OUT/demo.txt" 2>&1 ); echo "demo(with change) exit=$?" ;;
  esac
fi
for ID in "$@"; do
  PVF_REPO="$WT" PVF_EVIDENCE_DIR="$OUT/evidence" PVF_REPLAY_DIR="$OUT/replays" /verif/check "$ID" --tier quick > "$OUT/$ID.txt" 2>&1
  RC=$?
  echo "RESULT $NAME $ID exit=$RC $(grep -c '^VIOLATION' $OUT/$ID.txt) violation lines; $(grep '^VIOLATION' $OUT/$ID.txt | head -2 | sed 's/.*mechanism=//' | tr '\n' ';')"
done
git -C /repo worktree remove --force "$WT"
