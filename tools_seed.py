#!/venv/bin/python
"""Confirms sub-agent mutants in scratch worktrees of /repo and stores them under /verif/seeded/<id>/.
usage: tools_seed.py C01 1 [C01 2 ...]   (property id, mutant number) - sources under /tmp/wt/<id>/mutants/mutantN"""
import json
import os
import shutil
import subprocess
import sys

VERIF = os.path.dirname(os.path.abspath(__file__))


def sh(cmd, cwd=None, env=None, timeout=1800):
    e = dict(os.environ)
    e.update(env or {})
    p = subprocess.run(cmd, shell=True, cwd=cwd, env=e, stdout=subprocess.PIPE, stderr=subprocess.STDOUT, timeout=timeout)
    return p.returncode, p.stdout.decode('utf-8', 'replace')


def demo_cmd(demo):
    return ('/venv/bin/python ' if demo.endswith('.py') else 'sh ') + demo


def main():
    args = sys.argv[1:]
    head = sh('git -C /repo rev-parse --short HEAD')[1].strip()
    for pid, num in zip(args[0::2], args[1::2]):
        name = '%s_m%s' % (pid, num)
        src = '/tmp/wt/%s/mutants/mutant%s' % (pid, num)
        patch = os.path.join(src, 'patch.diff')
        demo = [f for f in os.listdir(src) if f.startswith('demo.')][0]
        wt = '/tmp/mw/seed_' + name
        sh('git -C /repo worktree remove --force %s' % wt)
        rc, out = sh('git -C /repo worktree add -q --detach %s HEAD' % wt)
        meta = {'id': name, 'breaks_property': pid, 'repo_head': head, 'ran': []}
        env = {'PROPHY_ROOT': wt, 'PYTHONPATH': wt}
        try:
            rc0, o0 = sh(demo_cmd(os.path.join(src, demo)), cwd=wt, env=env)
            meta['ran'].append({'cmd': 'demo on the clean worktree', 'exit': rc0})
            rc, out = sh('git apply %s' % patch, cwd=wt)
            if rc != 0:
                meta['kept'] = False
                meta['reason'] = 'patch does not apply to HEAD: ' + out[-200:]
                print(name, 'DOES NOT APPLY')
                continue
            rc1, o1 = sh('/venv/bin/python -m pytest -q -p no:cacheprovider 2>&1 | tail -1', cwd=wt)
            meta['ran'].append({'cmd': 'pinned suite with the change', 'result': o1.strip()})
            rc2, o2 = sh(demo_cmd(os.path.join(src, demo)), cwd=wt, env=env)
            meta['ran'].append({'cmd': 'demo with the change', 'exit': rc2, 'tail': o2[-300:]})
            outdir = '/tmp/mutant_runs/seed_' + name
            shutil.rmtree(outdir, ignore_errors=True)
            rc3, o3 = sh('%s/check %s --tier quick' % (VERIF, pid),
                         env={'PVF_REPO': wt, 'PVF_EVIDENCE_DIR': outdir + '/evidence', 'PVF_REPLAY_DIR': outdir + '/replays'})
            viol = [ln for ln in o3.split('\n') if ln.startswith('VIOLATION')]
            mechs = sorted(set(v.split('mechanism=')[-1] for v in viol))
            meta['ran'].append({'cmd': 'PVF_REPO=<worktree> ./check %s --tier quick' % pid, 'exit': rc3,
                                'violation_lines': len(viol), 'mechanisms': mechs[:6]})
            ok = rc0 == 0 and 'passed' in o1 and 'failed' not in o1 and rc2 != 0
            meta['kept'] = bool(ok)
            meta['detected_by_quick_check'] = rc3 == 1 and bool(viol)
            readme = open(os.path.join(src, 'README.md')).read() if os.path.exists(os.path.join(src, 'README.md')) else ''
            meta['needs_to_manifest'] = readme[:1500]
            print(name, 'kept' if ok else 'NOT KEPT (clean demo %s, suite %r, demo with change %s)' % (rc0, o1.strip(), rc2),
                  'detected' if meta['detected_by_quick_check'] else 'MISSED', mechs[:2])
            if ok:
                dst = os.path.join(VERIF, 'seeded', name)
                shutil.rmtree(dst, ignore_errors=True)
                os.makedirs(dst)
                shutil.copy(patch, os.path.join(dst, 'patch.diff'))
                shutil.copy(os.path.join(src, demo), os.path.join(dst, demo))
                if readme:
                    open(os.path.join(dst, 'README.md'), 'w').write(readme)
                json.dump(meta, open(os.path.join(dst, 'meta.json'), 'w'), indent=1)
        finally:
            sh('git -C /repo worktree remove --force %s' % wt)


if __name__ == '__main__':
    main()
