#!/venv/bin/python
"""Like tools_seed.py, for seeded changes that tools_mutant.sh has already been run on: the pinned-suite result and the
quick-check result are taken from /tmp/mutant_runs/<id>/ (written by tools_mutant.sh for the same patch); only the two
demonstration runs (clean worktree / with the change) are made here.
usage: tools_seed_fast.py C01 13 [C01 14 ...]"""
import json
import os
import shutil
import sys

from tools_seed import sh, demo_cmd, VERIF


def main():
    args = sys.argv[1:]
    head = sh('git -C /repo rev-parse --short HEAD')[1].strip()
    for pid, num in zip(args[0::2], args[1::2]):
        name = '%s_m%s' % (pid, num)
        src = '/tmp/wt/%s/mutants/mutant%s' % (pid, num)
        patch = os.path.join(src, 'patch.diff')
        runs = '/tmp/mutant_runs/' + name
        if not (os.path.exists(os.path.join(runs, 'pytest.txt')) and os.path.exists(os.path.join(runs, pid + '.txt'))):
            print(name, 'NO tools_mutant.sh RESULT')
            continue
        demo = [f for f in os.listdir(src) if f.startswith('demo.')][0]
        wt = '/tmp/mw/seedf_' + name
        sh('git -C /repo worktree remove --force %s' % wt)
        sh('git -C /repo worktree add -q --detach %s HEAD' % wt)
        meta = {'id': name, 'breaks_property': pid, 'repo_head': head, 'ran': []}
        env = {'PROPHY_ROOT': wt, 'PYTHONPATH': wt}
        try:
            rc0, o0 = sh(demo_cmd(os.path.join(src, demo)), cwd=wt, env=env)
            meta['ran'].append({'cmd': 'demo on the clean worktree', 'exit': rc0})
            rc, out = sh('git apply %s' % patch, cwd=wt)
            if rc != 0:
                print(name, 'DOES NOT APPLY')
                continue
            o1 = open(os.path.join(runs, 'pytest.txt')).read()
            meta['ran'].append({'cmd': 'pinned suite with the change', 'result': o1.strip()})
            rc2, o2 = sh(demo_cmd(os.path.join(src, demo)), cwd=wt, env=env)
            meta['ran'].append({'cmd': 'demo with the change', 'exit': rc2, 'tail': o2[-300:]})
            o3 = open(os.path.join(runs, pid + '.txt')).read()
            viol = [ln for ln in o3.split('\n') if ln.startswith('VIOLATION')]
            mechs = sorted(set(v.split('mechanism=')[-1] for v in viol))
            last = [ln for ln in o3.split('\n') if ln.startswith(pid + ' ')]
            verdict = last[-1].split()[1] if last else '?'
            meta['ran'].append({'cmd': 'PVF_REPO=<worktree> ./check %s --tier quick' % pid, 'verdict': verdict,
                                'exit': {'violated': 1, 'held': 0}.get(verdict, 2),
                                'violation_lines': len(viol), 'mechanisms': mechs[:6]})
            ok = rc0 == 0 and 'passed' in o1 and 'failed' not in o1 and rc2 != 0
            meta['kept'] = bool(ok)
            meta['detected_by_quick_check'] = verdict == 'violated' and bool(viol)
            readme = open(os.path.join(src, 'README.md')).read() if os.path.exists(os.path.join(src, 'README.md')) else ''
            meta['needs_to_manifest'] = readme[:1500]
            print(name, 'kept' if ok else 'NOT KEPT (clean demo %s, suite %r, demo with change %s)' % (rc0, o1.strip(), rc2),
                  'detected' if meta['detected_by_quick_check'] else 'MISSED', mechs[:2], flush=True)
            if ok:
                dst = os.path.join(VERIF, 'seeded', name)
                shutil.rmtree(dst, ignore_errors=True)
                os.makedirs(dst)
                shutil.copy(patch, os.path.join(dst, 'patch.diff'))
                shutil.copy(os.path.join(src, demo), os.path.join(dst, demo))
                if readme:
                    open(os.path.join(dst, 'README.md'), 'w').write(readme)
                json.dump(meta, open(os.path.join(dst, 'meta.json'), 'w'), indent=1)
        finally:
            sh('git -C /repo worktree remove --force %s' % wt)


if __name__ == '__main__':
    main()
