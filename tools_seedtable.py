#!/venv/bin/python
"""Prints the DESIGN.md 7.1 table from /verif/seeded/*/meta.json (what each seeded change is, which check and
mechanism reported it, and what - if anything - the check was missing when the change was first tried)."""
import glob
import json
import os
import re
import sys

VERIF = os.path.dirname(os.path.abspath(__file__))

# what had to be added before the quick check reported the change ('' = reported as first built)
STRENGTHENED = {
    'C03_m1': 'nested unlimited structs (Gr1/Gr4) as greedy tails of the palette',
    'C04_m2': 'AdvOptBlk*: optional flag alignment in the block after a dynamic field',
    'C06_m2': 'AdvIn/AdvOut: arrays sharing a sizer around a nested struct with a bound field of the same name',
    'C08_m2': 'Un12: 8-aligned union whose largest arm is 12 bytes (size must round to the union alignment)',
    'C09_m1': "TDy4<>: dynamic array whose element type is a typedef of a dynamic struct",
    'C11_m2': 'sparse / never-observed copy_from sources (union arm selected through the discriminator only)',
    'C13_m1': 'random isar cycles with definitions outside the cycle that merely use a member of it',
    'C13_m2': 'isar constants whose value names something that cannot be evaluated (None reaches the arithmetic)',
    'C14_m2': '64-bit-scale literals in divisions (a float detour rounds them)',
    'C16_m2': 'include directives spelled with ../, ./ and absolute paths',
    'C20_m1': 'same-named sibling include of different content in three directories',
    'C20_m2': 'a file reachable only through the last of two -I directories',
    'C02_m4': 'element counts exactly at the decoder guard (65535, 65536) for scalar, bytes and composite arrays',
    'C04_m4': "C04 now also runs C08's offsetof/sizeof oracle on the raw header prophyc emits",
    'C07_m3': "64-bit (and signed) counters in the palette; width-aware counter corruptions (top bits set on the valid "
              "count, counts whose product with an element size wraps 2**32 / 2**64)",
    'C07_m4': 'exactness (size, re-encoding, role-wise agreement) is judged for decodes into one long-lived object per '
              'type, including a canonical decode after the corruptions',
    'C08_m3': 'three-level nesting in the canary file; a header that lacks a member/part the wire layout requires is a '
              'violation (compiler diagnostic parsed) instead of a silent prerequisite failure',
    'C08_m4': 'alignof of every partN sub-struct joins the table',
    'C10_m2': 'regression of an own false-alarm repair: out-of-range *ints* for float fields had been dropped; restored as '
              'powers of two (exactly representable, so list.remove agrees with the model)',
    'C11_m3': 'post-copy mutation also grows every dynamic/limited/greedy array by one element (empty shared containers)',
    'C12_m3': 'rule breakers using types that are unlimited/dynamic only through nesting (GD, GN, GNN, GDY, DN, DL, DNN)',
    'C13_m3': 'CPU-time timer (ITIMER_VIRTUAL) next to the LINE budget: a backtracking regex emits no line events',
    'C13_m4': 'number-like words (--1, superscript/full-width digits, 1_0, ...) for numeric patch parameters',
    'C16_m3': 'arrangement I-subpath-nested: "proto/x.prophy" found through -I, whose own includes are its siblings; '
              'the includer is processed first',
    'C16_m4': 'one global name of the last file equals a member name of a type it includes',
    'C17_m3': 'limited arrays spelled two-dimensionally (size x size2), directly and through the limited patch rule',
    'C17_m4': 'after every node rename a later rule addressed to the new name (must be ignored)',
    'C20_m4': 'both inputs of a run define a node of the same name that the patch file restructures',
    'C03_m5': 'canary sequences: a block after a dynamic field whose alignment comes only from the flag of a small optional '
              'that is not its first member',
    'C05_m6': 'canary sequences: dynamic structs ending in a small optional (size 5/6, alignment 4) and arrays of them',
    'C07_m6': 'canonical, extended, truncated and padding-garbage inputs are also decoded through the std::vector overload',
    'C08_m6': 'every schema is also cut into an included and an including file compiled in one run; same table',
    'C09_m5': 'canary sequences: own dynamic array + nested unlimited tail, as the last member of another struct',
    'C11_m6': '-0.0 among the float values (and sign-aware default detection in the sparse builder)',
    'C13_m5': 'option cases where an output / include path exists but is a regular file',
    'C14_m5': 'constant and enumerator names made of hexadecimal digits only (C0, BEEF, A1, AD, F00D) and values that '
              'are nothing but another name',
    'C15_m5': 'constant expressions with the literal first (2 * N, 1 + N, 0x1 + N, parenthesised)',
    'C16_m5': 'arrangement declaration-less-file: a comment-only file included by every other file and given as input',
    'C16_m6': 'arrangement files-named-like-types: each file is called after the first definition it holds',
    'C17_m5': "one message's patch rules are interleaved with the rules of other messages",
    'C17_m6': 'the member a remove rule deletes may be the very first member',
    'C18_m5': 'a schema file that does not build is halved (fresh worker per half, 5 levels) so that the types that do '
              'build are still rendered and compared',
    'C19_m5': 'every Python worker starts with single-order encodes of default floats before -0.0 is encoded in both '
              'orders; two cases in three are preceded by a single-order encode',
    'C20_m5': 'variants rotate over shards (the quick tier had no isar group at all); both isar inputs use the same '
              'expression texts over constants of different values',
    'C20_m6': 'sack group: main.hpp including its sibling "types.h", run from several working directories, one of which '
              'holds an unrelated types.h',
    'C03_m8': 'the reference bytes are also decoded into the one long-lived object of the type, which still holds the '
              'previous value',
    'C06_m7': 'AdvTrack: a scalar array and a struct array counted by the same field (cuts on element boundaries)',
    'C06_m8': 'AdvMac/AdvHosts: array elements made of fixed-size bytes only',
    'C08_m7': 'canary sequences with optionals whose 8-byte alignment is only visible through one or two typedef levels',
    'C09_m8': 'NOT REPORTED: needs a limited array whose counter lives in an earlier block, a shape only a patch file or '
              'the model API can build and the schema IR of this framework cannot express (see DESIGN 9)',
    'C10_m7': 'half of the array operations on the root message go through the array object obtained the first time '
              'instead of reading the field again',
    'C10_m8': 'extend() is also given one and the same message object several times; after every accepted '
              'extend/add/set/disc the live message must be a tree of its own objects (no object under two paths, none '
              'shared with a message passed to extend); unions with struct and union arms as array elements',
    'C12_m8': 'rule breakers with the offending element in the first / a middle position among its siblings',
    'C14_m7': 'isar constants whose value is a plain negative literal (decimal, hex) and a constant built on one',
    'C16_m7': 'arrangement two-dirs-mixed: a file names the files of the other directory first (../dK/f) and its own '
              'siblings afterwards by bare name',
    'C17_m7': 'isar enumerator values in every integer notation, negatives included (-0x.., -0o.., -0b..)',
    'C17_m8': 'the isar rendering is cut into inc.xml and a main file that pulls it in through xi:include',
    'C19_m7': 'fixed, dynamic and greedy arrays of enums in the palette',
    'C20_m7': 'an input whose base name is no identifier (b-v2.1.prophy)',
    'C20_m8': 'runs into output directories that already hold same-named files: longer ones that begin like the new '
              'output, proper prefixes of it, unrelated content',
    'C04_m9': 'C04 links the full codec and measures encode().size() / get_byte_size() of a default object of every '
              'fixed type; optionals of unions and of structs whose C++ object is not wire-sized (canary)',
    'C04_m10': 'sizeof of the raw struct of NON-fixed structs is modelled (packed main struct, one element per open '
               'array, parts as trailing members) and compared, for g++ and clang++',
    'C07_m9': 'not a missing observation but a budget problem: thousands of aborting cases restarted the instrumented '
              'binary until the run timed out; restarts are capped per schema file',
    'C08_m9': 'the schema written with a wrong composite/typedef type for some integer fields and put right by '
              'patch `type` rules; same table',
    'C08_m10': "every C08 worker first compiles a decoy file defining the helper types' names with the opposite "
               'alignment class (also the first input of the two-file run)',
    'C09_m9': 'two-file variant (an included and an including file compiled in one run) for the canary and wrapped files',
    'C11_m10': 'extend() is given a list, a tuple, the source array itself or a one-shot iterable (generator, iter, reversed)',
    'C14_m9': 'a second enum whose enumerators are built on each other and used as array sizes; enumerators of the main '
              'enum may use earlier ones (in isar this is the recorded sibling-enumerator finding for the Python module)',
    'C14_m10': 'constants and enumerators are also read back from the full codec header (.ppf.hpp); constants at and '
               'below the 32-bit signed range down to -(1<<63)+1',
    'C15_m9': 'a quarter of the permutations is compiled after another input of the same run that defines the same names',
    'C15_m10': 'definitions called like a builtin that does not exist (u128, u24, i24, r8, r16, u1, i128) - found and '
               'repaired bfaf69d on the way',
    'C16_m10': 'arrangement I-order: two -I directories in non-alphabetical order, the second holding same-named files '
               'with wider types',
    'C17_m9': "a `type` rule and the array rule of the same field in both orders",
    'C17_m10': 'constants built on each other without blanks (XK1*2, (XK1+XK2)+1) used as sizes; the constants written '
               'in reverse order',
    'C19_m9': 'NaN, infinities and denormals in the per-process float scenario',
    'C20_m9': 'a comment-only file included by both inputs; a joint run that fails while each input compiles alone is '
              'a violation',
    'C20_m10': 'two inputs whose names agree up to the first dot (msg.v1.prophy, msg.v2.prophy)',
    'C02_m11': 'packed mode (prophy.struct_packed, docs/python_codec.rst): hand-written packed descriptors, nested, in '
               'arrays, with dynamic members; expected bytes are the fields one after the other',
    'C04_m11': 'the schema written with composite/typedef types for some integer fields and put right by patch `type` '
               'rules: model and Python statics of the patched schema',
    'C05_m11': 'every C++ worker first generates a decoy full-codec schema that defines the helper types\' names with '
               'other sizes, alignments and stiffness',
    'C08_m12': 'behaviour of the overlay on the canary file: the generated swap (prophy::cast + member access through the '
               'overlay structs) must turn canonical foreign-endian bytes into canonical native bytes',
    'C12_m11': 'the prelude has earlier structs with integer fields called like the sizers the breakers name',
    'C14_m11': 'isar scenario judged on the model: shiftLeft / bitMaskOr nested in themselves and in each other',
    'C14_m12': 'same scenario: constants in limits.xml and in a same-named codec/limits.xml reached through another include',
    'C15_m11': 'up to three includes in front of the definitions',
    'C16_m11': 'arrangement abs-I-rel-inputs: relative inputs with absolute -I directories (one file, two spellings)',
    'C17_m11': 'default-constructed (untouched) messages are compared between the front-ends (first arm, first enumerator)',
    'C18_m11': 'a chain nested ten levels deep (struct / array element / optional / union arm in turn) in the canary file',
    'C19_m11': 'every other case is built sparsely (what equals its default is never touched); default values are not '
               'skipped when their encoding has non-zero bytes',
    'C20_m11': 'one file reached through a same-named symbolic link in every input directory, including its sibling',
    'C20_m12': 'a run started from a directory that holds a same-named, different file of what -I must supply',
    # round 7
    'C02_m13': "the message's OWN encoding is decoded too (built through the API, alternately dense and with defaults never touched)",
    'C04_m14': 'default-constructed objects of non-fixed types are encoded by the full codec and measured against the reference length',
    'C05_m13': 'a third of the schema files are cut into an included and an including file, both inputs of one prophyc run',
    'C05_m14': 'every scalar type in every member form (absent/present optional between other members, arrays): three more schema files per C++ worker set',
    'C06_m14': 'inputs with exactly 65535 / 65536 / 65537 real elements (u8, u16+bytes sharing a sizer, struct elements with an i64 sizer, bytes, limited u64) through decode + encode fixpoint',
    'C08_m13': 'isar rendering of the same schema whose fixed/limited array sizes are written as expressions (product divided with truncation, shift chain)',
    'C10_m13': 'packed-mode twin of every generated module (re-based on struct_packed) and assignment to array counters / unknown names as an operation',
    'C11_m14': 'the first write to an array after the copy is a whole-array operation (sort, slice assignment, deletion, insert, extend, remove)',
    'C13_m13': 'include cycles of 1..4 files in different directories spelled with redundant path components; a family that overruns the step budget twice stops burning the worker',
    'C13_m14': 'every combination of two or more output options in both orders, with the requested files looked for after success',
    'C14_m14': 'isar two-dimensional arrays (size x size2), static and limited, dimensions named by constants/enumerators',
    'C15_m13': "length fields of typedef'd integer type, aliases of dynamic structs, and an all-permutations motif set (struct needing a typedef only through its length field, pulled forward by its alias)",
    'C15_m14': 'member-level layout (size, alignment, padding of every struct member) compared between permutations and with the prophy front-end',
    'C16_m14': 'the run is started from a directory holding same-named, different files (includes found through -I only; a missing include stays missing)',
    'C17_m13': 'isar\'s optional arrays (optional="true" on a member with a dimension, every dimension form)',
    'C17_m14': 'members behind the greedy field in the XML, removed by rules placed before or after the greedy rule',
    'C18_m14': 'bytes values draw from every byte value except 0x27; floor of 150 distinct escape sequences rendered',
    'C20_m14': 'four -I directories, three of them holding same-named different files, each input alone under five hash seeds',
    # round 8
    'C06_m15': 'every input is also decoded into a long-lived message of its type; scripted histories of valid inputs (arrays of different kinds sharing a sizer grow, shrink to nothing, grow) - a used message whose decode returned has to encode',
    'C11_m15': 'a quarter of the sources are long-lived decode targets (va, then vb, then va again: a union returns to an arm it held before)',
    'C15_m15': 'sack definitions spelled inside a namespace (used as ns::K, emitted as ns__K) and as typedefs of anonymous struct / union / enum',
    'C15_m16': 'more optional members of struct / union type in the generated definition sets (60 % of the optional members when a composite exists)',
    'C16_m15': "arrangement 'dotted-stems': file stems with dots (f0.v2.x.prophy), judged on model, files written and the generated C++ include chain",
    'C16_m16': "arrangement 'blank-in-include-path': includes reached through a directory whose name holds a blank",
    'C17_m15': 'isar constants spelled with bitMaskOr / shiftLeft nested in themselves and in each other (isar-only text of an IR constant), used as array sizes',
    'C17_m16': "a counted array in the XML (a plain integer of the IR as its length field) made a fixed array by a 'static' rule",
    'C20_m15': 'several sack headers in one run (alone vs together, both orders) that share a union and a namespaced struct through a common include',
    'C20_m16': 'same scenario: the second header takes <types.h> from the -I directory while the first header has a different sibling types.h',
}


def main():
    rows = []
    for d in sorted(glob.glob(os.path.join(VERIF, 'seeded', 'C*_m*'))):
        mid = os.path.basename(d)
        meta = json.load(open(os.path.join(d, 'meta.json')))
        title = ''
        readme = os.path.join(d, 'README.md')
        if os.path.exists(readme):
            for line in open(readme):
                if line.startswith('#'):
                    title = re.sub(r'^#+\s*', '', line).strip()
                    title = re.sub(r'^(C\d\d\s*/?\s*)?mutant\s*\d\s*[-:]*\s*', '', title, flags=re.I)
                    break
        files = sorted(set(re.findall(r'^\+\+\+ b/(\S+)', open(os.path.join(d, 'patch.diff')).read(), flags=re.M)))
        last = meta['ran'][-1]
        mechs = last.get('mechanisms') or []
        det = ('exit %s: ' % last.get('exit')) + ', '.join('`%s`' % m for m in mechs[:2]) if mechs else 'exit %s (not reported)' % last.get('exit')
        rows.append((mid, meta['breaks_property'], title.replace('|', '/'), ' '.join(os.path.basename(f) for f in files), det,
                     STRENGTHENED.get(mid, '')))
    out = ['| change | what it does (files) | reported by the quick check as | added to the check before it reported it |',
           '|---|---|---|---|']

    def order(r):
        return (r[1], int(r[0].split('_m')[1]))
    for mid, prop, title, files, det, note in sorted(rows, key=order):
        out.append('| %s | %s (%s) | %s %s | %s |' % (mid, title, files, prop, det, note or '- (as first built)'))
    missed = [r[0] for r in rows if 'not reported' in r[4]]
    strengthened = [r[0] for r in rows if r[5] and not r[5].startswith('NOT REPORTED')]
    summary = ('%d seeded changes are stored; the quick check of the property reports %d of them on the current machinery, '
               '%d of these only after the addition named in the last column; not reported: %s.'
               % (len(rows), len(rows) - len(missed), len(strengthened), ', '.join(missed) or 'none'))
    text = summary + '\n\n' + '\n'.join(out) + '\n'
    if '--into-design' in sys.argv:
        path = os.path.join(VERIF, 'DESIGN.md')
        d = open(path).read()
        b, e = '<!-- SEEDED-TABLE-BEGIN -->', '<!-- SEEDED-TABLE-END -->'
        if 'SEEDED_TABLE_PLACEHOLDER' in d:
            d = d.replace('SEEDED_TABLE_PLACEHOLDER', b + '\n' + e)
        i, j = d.index(b), d.index(e)
        d = d[:i + len(b)] + '\n' + text + d[j:]
        open(path, 'w').write(d)
        print(summary)
    else:
        print(text)


if __name__ == '__main__':
    main()
